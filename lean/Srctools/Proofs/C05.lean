import Srctools.Model.C05
import Mathlib.Tactic.Linarith
import Mathlib.Tactic.Ring
import Mathlib.Tactic.FieldSimp
import Mathlib.Tactic.Positivity
set_option exponentiation.threshold 3000
/-! Lemmas for C05. Part 1: the exact binary64 model (`B64`): `x % 360.0 % 360.0` is a finite value in `[0, 360)`
for every finite `x`. -/

namespace B64

/-- 360.0 in units -/
def M360 : Nat := 360 * U

theorem M360_pos : 0 < M360 := by decide +kernel
theorem M360_lt_pow : M360 < 2 ^ 1083 := by decide +kernel
theorem M360_lt_maxMag : M360 < maxMag := by decide +kernel
theorem M360_eq : M360 = 45 * 2 ^ 1077 := by decide +kernel

theorem c360_eq : c360 = .fin false M360 := rfl

theorem roundHE_le (n d : Nat) : roundHE n d ≤ n / d + 1 := by
  unfold roundHE
  simp only
  split
  · omega
  · split
    · omega
    · split <;> omega

/-- rounding a magnitude strictly between 0 and 360.0 never exceeds 360.0 (360.0 is a multiple of every quantum
below it). -/
theorem roundMag_le_M360 (v : Nat) (h0 : 0 < v) (h : v < M360) : roundMag v 1 ≤ M360 := by
  unfold roundMag
  simp only [Nat.div_one, Nat.one_mul]
  have hv : v ≠ 0 := by omega
  have hk : quantExp v ≤ 1077 := by
    unfold quantExp
    have : v.log2 < 1083 := (Nat.log2_lt hv).2 (Nat.lt_trans h M360_lt_pow)
    omega
  generalize quantExp v = k at hk
  -- M360 = Q * 2^k
  obtain ⟨j, hj⟩ : ∃ j, 1077 = k + j := ⟨1077 - k, by omega⟩
  have hM : M360 = (45 * 2 ^ j) * 2 ^ k := by
    rw [M360_eq, hj, Nat.pow_add]; ac_rfl
  have hpos : 0 < 2 ^ k := Nat.pow_pos (by decide)
  have hdiv : v / 2 ^ k < 45 * 2 ^ j := by
    rw [Nat.div_lt_iff_lt_mul hpos]
    omega
  have := roundHE_le v (2 ^ k)
  rw [hM]
  exact Nat.mul_le_mul_right _ (by omega)

theorem ofInt_natCast_pos (n : Nat) (h : 0 < n) (z : Bool) : ofInt (n : Int) z = rnd false n 1 := by
  unfold ofInt
  have h1 : ((n : Int) == 0) = false := by simp; omega
  have h2 : decide ((n : Int) < 0) = false := by simp
  simp [h1, h2]

theorem add_neg_pos (a b : Nat) (h : a < b) : add (.fin true a) (.fin false b) = rnd false (b - a) 1 := by
  have hv : (Val.fin true a).toInt + (Val.fin false b).toInt = ((b - a : Nat) : Int) := by
    simp only [Val.toInt]; omega
  show ofInt ((Val.fin true a).toInt + (Val.fin false b).toInt) (true && false) = _
  rw [hv]
  exact ofInt_natCast_pos _ (by omega) _

/-- first `% 360.0`: a finite value with magnitude at most 360.0 and positive sign -/
theorem mod360_fin (s : Bool) (m : Nat) : ∃ a, mod360 (.fin s m) = .fin false a ∧ a ≤ M360 := by
  have hM := M360_pos
  have hlt : m % M360 < M360 := Nat.mod_lt _ hM
  unfold mod360 pyMod
  simp only [c360_eq, fmod]
  have hne : (M360 == 0) = false := by simp; omega
  simp only [hne, Bool.false_eq_true, if_false]
  by_cases hz : m % M360 = 0
  · refine ⟨0, ?_, Nat.zero_le _⟩
    simp [Val.isZero, hz, Val.signBit]
  · have hz' : (Val.fin s (m % M360)).isZero = false := by
      cases hmm : m % M360 with
      | zero => exact absurd hmm hz
      | succ n => rfl
    simp only [hz', Bool.false_eq_true, if_false]
    cases s with
    | false =>
      refine ⟨m % M360, ?_, Nat.le_of_lt hlt⟩
      simp [Val.ltZero]
    | true =>
      have hlz : (Val.fin true (m % M360)).ltZero = true := by
        simp [Val.ltZero]; exact hz
      have hl0 : (Val.fin false M360).ltZero = false := by simp [Val.ltZero]
      simp only [hlz, hl0]
      simp only [bne_iff_ne, ne_eq, Bool.false_eq_true, not_false_eq_true, if_true]
      rw [add_neg_pos _ _ hlt]
      have hpos : 0 < M360 - m % M360 := by omega
      unfold rnd
      have hle := roundMag_le_M360 (M360 - m % M360) hpos (by omega)
      have : roundMag (M360 - m % M360) 1 < maxMag := Nat.lt_of_le_of_lt hle M360_lt_maxMag
      simp only [this, if_true]
      exact ⟨_, rfl, hle⟩

/-- second `% 360.0` of a value in `[0, 360]` -/
theorem mod360_of_le (a : Nat) (_h : a ≤ M360) : ∃ b, mod360 (.fin false a) = .fin false b ∧ b < M360 := by
  have hM := M360_pos
  unfold mod360 pyMod
  simp only [c360_eq, fmod]
  have hne : (M360 == 0) = false := by simp; omega
  simp only [hne, Bool.false_eq_true, if_false]
  by_cases hz : a % M360 = 0
  · refine ⟨0, ?_, hM⟩
    simp [Val.isZero, hz, Val.signBit]
  · have hz' : (Val.fin false (a % M360)).isZero = false := by
      cases hmm : a % M360 with
      | zero => exact absurd hmm hz
      | succ n => rfl
    simp only [hz', Bool.false_eq_true, if_false]
    refine ⟨a % M360, ?_, Nat.mod_lt _ hM⟩
    simp [Val.ltZero]

/-- **`x % 360.0 % 360.0` of any finite double is a finite, non-negative double strictly below 360.0.** -/
theorem norm360_fin (s : Bool) (m : Nat) : ∃ b, norm360 (.fin s m) = .fin false b ∧ b < M360 := by
  obtain ⟨a, ha, hle⟩ := mod360_fin s m
  obtain ⟨b, hb, hlt⟩ := mod360_of_le a hle
  exact ⟨b, by show pyMod (pyMod _ c360) c360 = _; exact (by
    have : pyMod (Val.fin s m) c360 = .fin false a := ha
    rw [this]; exact hb), hlt⟩

end B64

/-! Part 2: the same fact for *every* rounding system — any precision, any rounding mode that is monotone and
leaves representable numbers alone, provided 0 and 360 are representable. Numbers are rationals; `rnd` is the
rounding applied to the one inexact operation of CPython's `float_rem` (`mod += wx`); C's `fmod` is exact. -/
namespace C05

structure RoundingSystem where
  rnd : Rat → Rat
  Rep : Rat → Prop
  /-- rounding is the identity on representable numbers -/
  rnd_rep : ∀ q, Rep q → rnd q = q
  /-- rounding is monotone -/
  mono : ∀ a b, a ≤ b → rnd a ≤ rnd b
  rep_zero : Rep 0
  rep_360 : Rep 360

/-- C `fmod(x, y)` for `y > 0`: exact, sign of `x`. -/
def fmodQ (x y : Rat) : Rat :=
  if 0 ≤ x then x - y * ((x / y).floor : Int) else -((-x) - y * (((-x) / y).floor : Int))

/-- CPython `float_rem` for a positive divisor. -/
def pyModQ (RS : RoundingSystem) (x y : Rat) : Rat :=
  let r := fmodQ x y
  if r = 0 then 0 else if r < 0 then RS.rnd (r + y) else r

def norm2Q (RS : RoundingSystem) (x : Rat) : Rat := pyModQ RS (pyModQ RS x 360) 360

theorem fmod_nonneg_range (a y : Rat) (hy : 0 < y) (_ha : 0 ≤ a) :
    0 ≤ a - y * ((a / y).floor : Int) ∧ a - y * ((a / y).floor : Int) < y := by
  have h1 := Rat.floor_le (a / y)
  have h2 := Rat.lt_floor_add_one (a / y)
  have hc : y * (a / y) = a := mul_div_cancel₀ a (ne_of_gt hy)
  have h3 : y * ((a / y).floor : Int) ≤ y * (a / y) := mul_le_mul_of_nonneg_left h1 (le_of_lt hy)
  have h4 : y * (a / y) < y * (((a / y).floor + 1 : Int) : Rat) := mul_lt_mul_of_pos_left h2 hy
  rw [hc] at h3 h4
  push_cast at h4
  constructor <;> nlinarith

theorem fmodQ_range (x y : Rat) (hy : 0 < y) : -y < fmodQ x y ∧ fmodQ x y < y ∧ (0 ≤ x → 0 ≤ fmodQ x y) := by
  unfold fmodQ
  split
  · rename_i h
    obtain ⟨a, b⟩ := fmod_nonneg_range x y hy h
    exact ⟨by linarith, b, fun _ => a⟩
  · rename_i h
    have h' : 0 ≤ -x := by linarith
    obtain ⟨a, b⟩ := fmod_nonneg_range (-x) y hy h'
    exact ⟨by linarith, by linarith, fun h0 => absurd h0 h⟩

theorem fmodQ_of_lt (x y : Rat) (h0 : 0 ≤ x) (h : x < y) : fmodQ x y = x := by
  unfold fmodQ
  have hy : 0 < y := lt_of_le_of_lt h0 h
  have hf : (x / y).floor = 0 := by
    apply le_antisymm
    · have : (x / y).floor < 1 := Rat.floor_lt_iff.2 (by
        rw [div_lt_iff₀ hy]; simpa using h)
      omega
    · exact Rat.le_floor_iff.2 (by simpa using div_nonneg h0 (le_of_lt hy))
  simp [h0, hf]

theorem fmodQ_self (y : Rat) (hy : 0 < y) : fmodQ y y = 0 := by
  unfold fmodQ
  have : y / y = 1 := div_self (ne_of_gt hy)
  have hf : (y / y).floor = 1 := by rw [this]; exact Rat.floor_intCast 1
  simp [le_of_lt hy, hf]

/-- one modulo lands in the *closed* interval [0, 360] -/
theorem pyModQ_range (RS : RoundingSystem) (x : Rat) : 0 ≤ pyModQ RS x 360 ∧ pyModQ RS x 360 ≤ 360 := by
  obtain ⟨h1, h2, _⟩ := fmodQ_range x 360 (by norm_num)
  unfold pyModQ
  simp only
  split
  · exact ⟨le_refl _, by norm_num⟩
  · split
    · rename_i hlt
      have a := RS.mono 0 (fmodQ x 360 + 360) (by linarith)
      have b := RS.mono (fmodQ x 360 + 360) 360 (by linarith)
      rw [RS.rnd_rep 0 RS.rep_zero] at a
      rw [RS.rnd_rep 360 RS.rep_360] at b
      exact ⟨a, b⟩
    · rename_i hge
      exact ⟨by linarith, by linarith⟩

/-- a second modulo of a value in [0, 360] lands in [0, 360) -/
theorem pyModQ_of_range (RS : RoundingSystem) (m : Rat) (h0 : 0 ≤ m) (h : m ≤ 360) :
    0 ≤ pyModQ RS m 360 ∧ pyModQ RS m 360 < 360 := by
  rcases lt_or_eq_of_le h with hlt | heq
  · have := fmodQ_of_lt m 360 h0 hlt
    unfold pyModQ
    simp only [this]
    split
    · exact ⟨le_refl _, by norm_num⟩
    · have : ¬ m < 0 := by linarith
      simp only [this, if_false]
      exact ⟨h0, hlt⟩
  · subst heq
    unfold pyModQ
    simp [fmodQ_self 360 (by norm_num)]

theorem norm2Q_range (RS : RoundingSystem) (x : Rat) : 0 ≤ norm2Q RS x ∧ norm2Q RS x < 360 := by
  obtain ⟨a, b⟩ := pyModQ_range RS x
  exact pyModQ_of_range RS _ a b

end C05

/-! Part 3: the state machine keeps every angle field in range, for any number system with the range law. -/
namespace C05

/-- what the invariant proof needs to know about the numbers -/
structure NumLaws {α : Type} (N : NumSys α) where
  /-- finite value -/
  Fin : α → Prop
  /-- value in [0, 360) -/
  R : α → Prop
  r_zero : R N.zero
  r_norm2 : ∀ x, Fin x → R (N.norm2 x)
  fin_of_r : ∀ x, R x → Fin x

variable {α : Type} {N : NumSys α} (L : NumLaws N)

def ObjOK (o : Obj α) : Prop := o.kind.isAngle = true → L.R o.a ∧ L.R o.b ∧ L.R o.c

/-- every live Angle / FrozenAngle has all three fields in [0, 360) -/
def Inv (st : State α) : Prop := ∀ o ∈ st, ObjOK L o

/-- domain of an operation: the numbers it feeds into normalising writes are finite -/
def WfOp (st : State α) : Op α → Prop
  | .ctor _ _ a b c => L.Fin a ∧ L.Fin b ∧ L.Fin c
  | .setProp _ _ v => L.Fin v
  | .setItem _ _ v => L.Fin v
  | .imul i v => ∀ o, st[i]? = some o → L.Fin (N.mul o.a v) ∧ L.Fin (N.mul o.b v) ∧ L.Fin (N.mul o.c v)
  | .mulNew i v => ∀ o, st[i]? = some o → L.Fin (N.mul o.a v) ∧ L.Fin (N.mul o.b v) ∧ L.Fin (N.mul o.c v)
  | .toAngle _ _ raw => ∀ x ∈ raw, L.Fin x
  | .transform _ raw => ∀ x ∈ raw, L.Fin x
  | _ => True

def WfRun (sites : List AngleSite) : State α → List (Op α) → Prop
  | _, [] => True
  | st, op :: r => WfOp L st op ∧ WfRun sites (step N sites st op).1 r

theorem inv_nil : Inv L ([] : State α) := by
  intro o h; cases h

theorem inv_append {st : State α} {o : Obj α} (h : Inv L st) (ho : ObjOK L o) : Inv L (st ++ [o]) := by
  intro p hp
  rcases List.mem_append.1 hp with hp | hp
  · exact h p hp
  · rw [List.mem_singleton.1 hp]; exact ho

theorem inv_set {st : State α} {o : Obj α} (i : Nat) (h : Inv L st) (ho : ObjOK L o) : Inv L (st.setObj i o) := by
  intro p hp
  rcases List.mem_or_eq_of_mem_set hp with hp | hp
  · exact h p hp
  · rw [hp]; exact ho

theorem inv_get {st : State α} {o : Obj α} {i : Nat} (h : Inv L st) (hi : st[i]? = some o) : ObjOK L o :=
  h o (List.mem_of_getElem? hi)

theorem apply_ok {c : RhsCls} {inp : Bool} {x : α} (hc : posOK inp c = true)
    (hx : if inp then L.Fin x else L.R x) : L.R (applyCls N c x) := by
  cases c <;> cases inp <;> simp [posOK] at hc <;> simp only [applyCls]
  · exact L.r_norm2 x (L.fin_of_r x (by simpa using hx))
  · exact L.r_norm2 x (by simpa using hx)
  · simpa using hx
  · exact L.r_zero
  · exact L.r_zero

theorem site_ok {sites : List AngleSite} (h : modelSitesOK sites = true) {f : String} {n : Nat} {slots : List Nat}
    {inp : Bool} (hm : (f, n, slots, inp) ∈ usedSites) {s : Nat} (hs : s ∈ slots) :
    posOK inp (siteCls sites f s n) = true := by
  unfold modelSitesOK at h
  rw [List.all_eq_true] at h
  have := h _ hm
  simp only [List.all_eq_true] at this
  exact this s hs


theorem site_in3 {sites : List AngleSite} (h : modelSitesOK sites = true) (f : String) (n : Nat)
    (hm : (f, n, [0, 1, 2], true) ∈ usedSites) {x y z : α} (hx : L.Fin x) (hy : L.Fin y) (hz : L.Fin z) :
    L.R (applyCls N (siteCls sites f 0 n) x) ∧ L.R (applyCls N (siteCls sites f 1 n) y) ∧
    L.R (applyCls N (siteCls sites f 2 n) z) :=
  ⟨apply_ok L (site_ok h hm (by decide)) (by simpa using hx), apply_ok L (site_ok h hm (by decide)) (by simpa using hy),
   apply_ok L (site_ok h hm (by decide)) (by simpa using hz)⟩

theorem site_rd3 {sites : List AngleSite} (h : modelSitesOK sites = true) (f : String) (n : Nat)
    (hm : (f, n, [0, 1, 2], false) ∈ usedSites) {x y z : α} (hx : L.R x) (hy : L.R y) (hz : L.R z) :
    L.R (applyCls N (siteCls sites f 0 n) x) ∧ L.R (applyCls N (siteCls sites f 1 n) y) ∧
    L.R (applyCls N (siteCls sites f 2 n) z) :=
  ⟨apply_ok L (site_ok h hm (by decide)) (by simpa using hx), apply_ok L (site_ok h hm (by decide)) (by simpa using hy),
   apply_ok L (site_ok h hm (by decide)) (by simpa using hz)⟩

theorem objOK_set {o : Obj α} (ho : ObjOK L o) (slot : Nat) {v : α} (hv : L.R v) : ObjOK L (o.set slot v) := by
  intro hk
  have hk' : o.kind.isAngle = true := by
    unfold Obj.set at hk; split at hk <;> exact hk
  obtain ⟨a, b, c⟩ := ho hk'
  unfold Obj.set
  split <;> exact ⟨by first | exact hv | exact a, by first | exact hv | exact b, by first | exact hv | exact c⟩

theorem toAngle_ok {sites : List AngleSite} (h : modelSitesOK sites = true) {raw : List α} (hr : ∀ x ∈ raw, L.Fin x)
    {p y r : α} (he : toAngleFields N sites raw = some (p, y, r)) : L.R p ∧ L.R y ∧ L.R r := by
  unfold toAngleFields at he
  split at he
  · rename_i ry rp rr
    simp only [Option.some.injEq, Prod.mk.injEq] at he
    obtain ⟨h1, h2, h3⟩ := he
    have := site_in3 L h "MatrixBase._to_angle" 0 (by decide) (hr rp (by simp)) (hr ry (by simp)) (hr rr (by simp))
    rw [← h1, ← h2, ← h3]; exact this
  · rename_i ry rp
    simp only [Option.some.injEq, Prod.mk.injEq] at he
    obtain ⟨h1, h2, h3⟩ := he
    have := site_in3 L h "MatrixBase._to_angle" 1 (by decide) (hr rp (by simp)) (hr ry (by simp)) (L.fin_of_r _ L.r_zero)
    rw [← h1, ← h2, ← h3]; exact this
  · cases he

/-- **one API call preserves the invariant** -/
theorem step_inv {sites : List AngleSite} (hs : modelSitesOK sites = true) {st : State α} (h : Inv L st)
    (op : Op α) (hw : WfOp L st op) : Inv L (step N sites st op).1 := by
  cases op with
  | ctor frozen iter a b c =>
    obtain ⟨ha, hb, hc⟩ := hw
    simp only [step]
    apply inv_append L h
    intro _
    cases frozen <;> cases iter
    · exact site_in3 L hs "Angle.__init__" 0 (by decide) ha hb hc
    · exact site_in3 L hs "Angle.__init__" 2 (by decide) ha hb hc
    · exact site_in3 L hs "FrozenAngle.__new__" 0 (by decide) ha hb hc
    · exact site_in3 L hs "FrozenAngle.__new__" 2 (by decide) ha hb hc
  | ctorCopy frozen i =>
    simp only [step]
    split
    · rename_i o ho
      split
      · rename_i hk
        obtain ⟨a, b, c⟩ := inv_get L h ho hk
        apply inv_append L h
        intro _
        cases frozen
        · exact site_rd3 L hs "Angle.__init__" 1 (by decide) a b c
        · exact site_rd3 L hs "FrozenAngle.__new__" 1 (by decide) a b c
      · exact h
    · exact h
  | freeze i =>
    simp only [step]
    split
    · rename_i o ho
      split
      · rename_i hk
        have hk' : o.kind.isAngle = true := by
          have : o.kind = .ang := by simpa using hk
          rw [this]; rfl
        obtain ⟨a, b, c⟩ := inv_get L h ho hk'
        apply inv_append L h
        intro _
        exact site_rd3 L hs "Angle.freeze" 0 (by decide) a b c
      · split
        · apply inv_append L h
          intro hk; cases hk
        · exact h
    · exact h
  | thaw i =>
    simp only [step]
    split
    · rename_i o ho
      split
      · rename_i hk
        have hk' : o.kind.isAngle = true := by
          have : o.kind = .fang := by simpa using hk
          rw [this]; rfl
        obtain ⟨a, b, c⟩ := inv_get L h ho hk'
        apply inv_append L h
        intro _
        exact site_rd3 L hs "FrozenAngle.thaw" 0 (by decide) a b c
      · split
        · apply inv_append L h
          intro hk; cases hk
        · exact h
    · exact h
  | setProp i slot v =>
    simp only [step]
    split
    · rename_i o ho
      split
      · rename_i hk
        apply inv_set L i h
        apply objOK_set L (inv_get L h ho)
        have hlt : slot < 3 := by simp at hk; exact hk.2
        have hv : L.Fin v := hw
        match slot, hlt with
        | 0, _ => exact apply_ok L (site_ok hs (f := "Angle.pitch") (n := 0) (slots := [0]) (inp := true) (by decide) (by decide)) (by simpa using hv)
        | 1, _ => exact apply_ok L (site_ok hs (f := "Angle.yaw") (n := 0) (slots := [1]) (inp := true) (by decide) (by decide)) (by simpa using hv)
        | 2, _ => exact apply_ok L (site_ok hs (f := "Angle.roll") (n := 0) (slots := [2]) (inp := true) (by decide) (by decide)) (by simpa using hv)
      · exact h
    · exact h
  | setItem i slot v =>
    simp only [step]
    split
    · rename_i o ho
      split
      · rename_i hk
        apply inv_set L i h
        apply objOK_set L (inv_get L h ho)
        have hlt : slot < 3 := by simp at hk; exact hk.2
        have hv : L.Fin v := hw
        have hm : ("Angle.__setitem__", 0, [0, 1, 2], true) ∈ usedSites := by decide
        match slot, hlt with
        | 0, _ => exact apply_ok L (site_ok hs hm (by decide)) (by simpa using hv)
        | 1, _ => exact apply_ok L (site_ok hs hm (by decide)) (by simpa using hv)
        | 2, _ => exact apply_ok L (site_ok hs hm (by decide)) (by simpa using hv)
      · exact h
    · exact h
  | imul i v =>
    simp only [step]
    split
    · rename_i o ho
      split
      · obtain ⟨a, b, c⟩ := hw o ho
        apply inv_set L i h
        intro _
        exact site_in3 L hs "Angle.__imul__" 0 (by decide) a b c
      · exact h
    · exact h
  | mulNew i v =>
    simp only [step]
    split
    · rename_i o ho
      split
      · obtain ⟨a, b, c⟩ := hw o ho
        apply inv_append L h
        intro _
        cases hf : o.kind.frozen
        · exact site_in3 L hs "Angle.__init__" 0 (by decide) a b c
        · exact site_in3 L hs "FrozenAngle.__new__" 0 (by decide) a b c
      · exact h
    · exact h
  | toAngle tgt frozen raw =>
    simp only [step]
    split
    · exact h
    · rename_i p y r he
      have hr := toAngle_ok L hs hw he
      cases tgt with
      | none => exact inv_append L h (fun _ => hr)
      | some i =>
        simp only
        split
        · split
          · exact inv_set L i h (fun _ => hr)
          · exact h
        · exact h
  | transform i raw =>
    simp only [step]
    split
    · rename_i o p y r ho he
      obtain ⟨a, b, c⟩ := toAngle_ok L hs hw he
      split
      · apply inv_set L i h
        intro _
        exact site_rd3 L hs "Angle.transform" 0 (by decide) a b c
      · exact h
    · exact h
  | vctor frozen x y z =>
    simp only [step]
    apply inv_append L h
    intro hk
    cases frozen <;> cases hk
  | vset i slot v =>
    simp only [step]
    split
    · rename_i o ho
      split
      · rename_i hk
        apply inv_set L i h
        intro hk2
        have : o.kind = .vec := by simp at hk; exact hk.1
        have hk3 : (o.set slot v).kind = o.kind := by unfold Obj.set; split <;> rfl
        rw [hk3, this] at hk2; cases hk2
      · exact h
    · exact h
  | vscale i v inplace =>
    simp only [step]
    split
    · rename_i o ho
      split
      · exact h
      · rename_i hk
        have hna : ObjOK L (⟨o.kind, N.mul o.a v, N.mul o.b v, N.mul o.c v⟩ : Obj α) := by
          intro hk2; exact absurd hk2 hk
        split
        · split
          · exact inv_set L i h hna
          · exact h
        · exact inv_append L h hna
    · exact h
  | vadd i j subtract inplace =>
    simp only [step]
    split
    · rename_i o p ho hp
      split
      · exact h
      · rename_i hk
        have hk1 : ¬ o.kind.isAngle = true := by
          intro hc; apply hk; simp [hc]
        have hna : ∀ (x y z : α), ObjOK L (⟨o.kind, x, y, z⟩ : Obj α) := by
          intro x y z hk2; exact absurd hk2 hk1
        split
        · split
          · exact inv_set L i h (hna _ _ _)
          · exact h
        · exact inv_append L h (hna _ _ _)
    · exact h

theorem run_inv {sites : List AngleSite} (hs : modelSitesOK sites = true) (ops : List (Op α)) :
    ∀ (st : State α), Inv L st → WfRun L sites st ops → Inv L (run N sites st ops) := by
  induction ops with
  | nil => intro st h _; exact h
  | cons op r ih =>
    intro st h hw
    obtain ⟨h1, h2⟩ := hw
    have := ih (step N sites st op).1 (step_inv L hs h op h1) h2
    simpa [run] using this

end C05

/-! Part 3b: law instances; frame property of the state machine. -/
namespace C05
open B64

/-- the laws hold for the exact binary64 model -/
def b64Laws : NumLaws b64 where
  Fin x := x.isFinite = true
  R x := ∃ b, x = .fin false b ∧ b < M360
  r_zero := by
    refine ⟨0, ?_, M360_pos⟩
    rfl
  r_norm2 := by
    intro x hx
    cases x with
    | fin s m => exact norm360_fin s m
    | inf s => cases hx
    | nan => cases hx
  fin_of_r := by
    rintro x ⟨b, rfl, _⟩; rfl

/-- the number system of an arbitrary rounding system (every arithmetic result is rounded) -/
def absSys (RS : RoundingSystem) : NumSys Rat where
  zero := 0
  norm2 := norm2Q RS
  mod1 := fun x => pyModQ RS x 360
  mul := fun a b => RS.rnd (a * b)
  add := fun a b => RS.rnd (a + b)
  sub := fun a b => RS.rnd (a - b)

def absLaws (RS : RoundingSystem) : NumLaws (absSys RS) where
  Fin _ := True
  R x := 0 ≤ x ∧ x < 360
  r_zero := by
    show (0 : Rat) ≤ 0 ∧ (0 : Rat) < 360
    exact ⟨le_refl _, by norm_num⟩
  r_norm2 := fun x _ => norm2Q_range RS x
  fin_of_r := fun _ _ => trivial

variable {α : Type} (N : NumSys α) (sites : List AngleSite)

theorem get_append_left {st : State α} {j : Nat} {o x : Obj α} (hj : st[j]? = some o) : (st ++ [x])[j]? = some o := by
  have hlt : j < st.length := by
    by_contra hc
    have := List.getElem?_eq_none (Nat.le_of_not_lt hc)
    rw [this] at hj; cases hj
  rw [List.getElem?_append_left hlt]; exact hj

theorem get_set {st : State α} {i j : Nat} {o x : Obj α} (hj : st[j]? = some o) :
    (st.setObj i x)[j]? = some o ∨ i = j := by
  by_cases h : i = j
  · exact Or.inr h
  · left
    unfold State.setObj
    rw [List.getElem?_set_ne h]; exact hj

/-- **frame property of one API call**: an object that exists before the call is unchanged by it, unless it is the
reported target of the call — and then it is a mutable object (`Angle` or `Vec`). -/
theorem step_frame (st : State α) (op : Op α) (j : Nat) (o : Obj α) (hj : st[j]? = some o) :
    (step N sites st op).1[j]? = some o ∨ ((step N sites st op).2 = some j ∧ o.kind.frozen = false) := by
  have app : ∀ x : Obj α, (st ++ [x])[j]? = some o := fun x => get_append_left hj
  have hang : ∀ p : Obj α, st[j]? = some p → (p.kind == Kind.ang) = true → o.kind.frozen = false := by
    intro p hp hk
    rw [hj] at hp; cases hp
    have : o.kind = .ang := by simpa using hk
    rw [this]; rfl
  have hvec : ∀ p : Obj α, st[j]? = some p → (p.kind == Kind.vec) = true → o.kind.frozen = false := by
    intro p hp hk
    rw [hj] at hp; cases hp
    have : o.kind = .vec := by simpa using hk
    rw [this]; rfl
  cases op with
  | ctor frozen iter a b c => left; simp only [step]; exact app _
  | ctorCopy frozen i =>
    left; simp only [step]
    split
    · split
      · exact app _
      · exact hj
    · exact hj
  | freeze i =>
    left; simp only [step]
    split
    · split
      · exact app _
      · split
        · exact app _
        · exact hj
    · exact hj
  | thaw i =>
    left; simp only [step]
    split
    · split
      · exact app _
      · split
        · exact app _
        · exact hj
    · exact hj
  | setProp i slot v =>
    simp only [step]
    split
    · rename_i p hp
      split
      · rename_i hk
        rcases get_set (i := i) (x := p.set slot (applyCls N (siteCls sites (propName slot) slot 0) v)) hj with h | h
        · exact Or.inl h
        · right; subst h
          exact ⟨rfl, hang p hp (by simp at hk; simp [hk.1])⟩
      · exact Or.inl hj
    · exact Or.inl hj
  | setItem i slot v =>
    simp only [step]
    split
    · rename_i p hp
      split
      · rename_i hk
        rcases get_set (i := i) (x := p.set slot (applyCls N (siteCls sites "Angle.__setitem__" slot 0) v)) hj with h | h
        · exact Or.inl h
        · right; subst h
          exact ⟨rfl, hang p hp (by simp at hk; simp [hk.1])⟩
      · exact Or.inl hj
    · exact Or.inl hj
  | imul i v =>
    simp only [step]
    split
    · rename_i p hp
      split
      · rename_i hk
        rcases get_set (i := i) hj with h | h
        · exact Or.inl h
        · right; subst h
          exact ⟨rfl, hang p hp hk⟩
      · exact Or.inl hj
    · exact Or.inl hj
  | mulNew i v =>
    left; simp only [step]
    split
    · split
      · exact app _
      · exact hj
    · exact hj
  | toAngle tgt frozen raw =>
    simp only [step]
    split
    · exact Or.inl hj
    · cases tgt with
      | none => exact Or.inl (app _)
      | some i =>
        simp only
        split
        · rename_i p hp
          split
          · rename_i hk
            rcases get_set (i := i) hj with h | h
            · exact Or.inl h
            · right; subst h
              exact ⟨rfl, hang p hp hk⟩
          · exact Or.inl hj
        · exact Or.inl hj
  | transform i raw =>
    simp only [step]
    split
    · rename_i p _ _ _ hp _
      split
      · rename_i hk
        rcases get_set (i := i) hj with h | h
        · exact Or.inl h
        · right; subst h
          exact ⟨rfl, hang p hp hk⟩
      · exact Or.inl hj
    · exact Or.inl hj
  | vctor frozen x y z => left; simp only [step]; exact app _
  | vset i slot v =>
    simp only [step]
    split
    · rename_i p hp
      split
      · rename_i hk
        rcases get_set (i := i) (x := p.set slot v) hj with h | h
        · exact Or.inl h
        · right; subst h
          exact ⟨rfl, hvec p hp (by simp at hk; simp [hk.1])⟩
      · exact Or.inl hj
    · exact Or.inl hj
  | vscale i v inplace =>
    simp only [step]
    split
    · rename_i p hp
      split
      · exact Or.inl hj
      · split
        · split
          · rename_i hk
            rcases get_set (i := i) hj with h | h
            · exact Or.inl h
            · right; subst h
              exact ⟨rfl, hvec p hp hk⟩
          · exact Or.inl hj
        · exact Or.inl (app _)
    · exact Or.inl hj
  | vadd i k subtract inplace =>
    simp only [step]
    split
    · rename_i p q hp hq
      split
      · exact Or.inl hj
      · split
        · split
          · rename_i hk
            rcases get_set (i := i) hj with h | h
            · exact Or.inl h
            · right; subst h
              exact ⟨rfl, hvec p hp hk⟩
          · exact Or.inl hj
        · exact Or.inl (app _)
    · exact Or.inl hj

/-- a frozen object is never changed by an API call -/
theorem step_frozen (st : State α) (op : Op α) (j : Nat) (o : Obj α) (hj : st[j]? = some o)
    (hf : o.kind.frozen = true) : (step N sites st op).1[j]? = some o := by
  rcases step_frame N sites st op j o hj with h | ⟨_, h⟩
  · exact h
  · rw [hf] at h; cases h

/-- … nor by any history -/
theorem run_frozen (ops : List (Op α)) : ∀ (st : State α) (j : Nat) (o : Obj α), st[j]? = some o →
    o.kind.frozen = true → (run N sites st ops)[j]? = some o := by
  induction ops with
  | nil => intro st j o hj _; exact hj
  | cons op r ih =>
    intro st j o hj hf
    have := ih (step N sites st op).1 j o (step_frozen N sites st op j o hj hf) hf
    simpa [run] using this

end C05

namespace C05

/-! Part 4: heap frame theorem behind `Gen.Frozen`. Objects are heap cells with a role and slot values; one
top-level API call is a trace of allocations and slot stores, each store tagged with the source site it executes. -/

structure Cell (α : Type) where
  role : Role
  vals : List α

abbrev Heap (α : Type) := List (Cell α)

inductive Ev (α : Type)
  | alloc (role : Role) (vals : List α)
  | store (site : Store) (loc slot : Nat) (v : α)

def exec {α} (h : Heap α) : Ev α → Heap α
  | .alloc r vs => h ++ [⟨r, vs⟩]
  | .store _ loc slot v =>
    match h[loc]? with
    | some c => h.set loc { c with vals := c.vals.set slot v }
    | none => h

def roleAt {α} (h : Heap α) (l : Nat) : Option Role := (h[l]?).map (·.role)

/-- The translator's reading of its own classification (trusted, checked dynamically by the program fuzz): a store
executes a site of `G.stores`, and if `storeOK` accepts the site then the object written is one allocated by the
running call (`base ≤ loc`) or an instance of a mutable class. -/
def Reading {α} (G : FrozenFacts) (base : Nat) (h : Heap α) : Ev α → Prop
  | .alloc _ _ => True
  | .store site loc _ _ => site ∈ G.stores ∧ (G.storeOK site = true → base ≤ loc ∨ roleAt h loc = some .mutable)

def CallOK {α} (G : FrozenFacts) (base : Nat) : Heap α → List (Ev α) → Prop
  | _, [] => True
  | h, e :: r => Reading G base h e ∧ CallOK G base (exec h e) r

def execAll {α} (h : Heap α) (tr : List (Ev α)) : Heap α := tr.foldl exec h

theorem stores_ok {G : FrozenFacts} (hG : G.frozenOK = true) {s : Store} (hs : s ∈ G.stores) : G.storeOK s = true := by
  unfold FrozenFacts.frozenOK at hG
  simp only [Bool.and_eq_true] at hG
  exact List.all_eq_true.1 hG.2 s hs

theorem exec_keeps {α} {G : FrozenFacts} (hG : G.frozenOK = true) (base : Nat) (h : Heap α) (e : Ev α)
    (hr : Reading G base h e) (l : Nat) (c : Cell α) (hl : l < base) (hc : h[l]? = some c) (hm : c.role ≠ .mutable) :
    (exec h e)[l]? = some c := by
  cases e with
  | alloc r vs =>
    simp only [exec]
    have hlt : l < h.length := by
      by_contra hcon
      rw [List.getElem?_eq_none (Nat.le_of_not_lt hcon)] at hc; cases hc
    rw [List.getElem?_append_left hlt]; exact hc
  | store site loc slot v =>
    obtain ⟨hs, hrd⟩ := hr
    simp only [exec]
    split
    · rename_i c' hc'
      by_cases heq : loc = l
      · subst heq
        rcases hrd (stores_ok hG hs) with hb | hb
        · omega
        · exfalso
          simp only [roleAt, hc, Option.map_some, Option.some.injEq] at hb
          exact hm hb
      · rw [List.getElem?_set_ne heq]; exact hc
    · exact hc

/-- **frame theorem**: if every store site is accepted by the `Gen.Frozen` obligation, one API call leaves every
frozen (and base-class) object that existed before the call exactly as it was. -/
theorem call_frame {α} {G : FrozenFacts} (hG : G.frozenOK = true) (base : Nat) (tr : List (Ev α)) :
    ∀ (h : Heap α), CallOK G base h tr → ∀ (l : Nat) (c : Cell α), l < base → h[l]? = some c → c.role ≠ .mutable →
      (execAll h tr)[l]? = some c := by
  induction tr with
  | nil => intro h _ l c _ hc _; exact hc
  | cons e r ih =>
    intro h hok l c hl hc hm
    obtain ⟨h1, h2⟩ := hok
    have := ih (exec h e) h2 l c hl (exec_keeps hG base h e h1 l c hl hc hm) hm
    simpa [execAll] using this

/-- a history: each call starts from the heap the previous one left -/
def HistoryOK {α} (G : FrozenFacts) : Heap α → List (List (Ev α)) → Prop
  | _, [] => True
  | h, tr :: r => CallOK G h.length h tr ∧ HistoryOK G (execAll h tr) r

def execHistory {α} (h : Heap α) (calls : List (List (Ev α))) : Heap α := calls.foldl execAll h

theorem history_frame {α} {G : FrozenFacts} (hG : G.frozenOK = true) (calls : List (List (Ev α))) :
    ∀ (h : Heap α), HistoryOK G h calls → ∀ (l : Nat) (c : Cell α), h[l]? = some c → c.role ≠ .mutable →
      (execHistory h calls)[l]? = some c := by
  induction calls with
  | nil => intro h _ l c hc _; exact hc
  | cons tr r ih =>
    intro h hok l c hc hm
    obtain ⟨h1, h2⟩ := hok
    have hl : l < h.length := by
      by_contra hcon
      rw [List.getElem?_eq_none (Nat.le_of_not_lt hcon)] at hc; cases hc
    have := ih (execAll h tr) h2 l c (call_frame hG h.length tr h h1 l c hl hc hm) hm
    simpa [execHistory] using this

end C05

/-! Part 5: the text form (`format_float`). -/
namespace B64

/-- `-?[0-9]+(\.[0-9]{1,6})?` -/
def shapeOK (l : List Char) : Bool :=
  let l := match l with
    | '-' :: r => r
    | r => r
  let ip := l.takeWhile isDigit
  let r := l.dropWhile isDigit
  !ip.isEmpty && (match r with
    | [] => true
    | '.' :: fp => !fp.isEmpty && decide (fp.length ≤ 6) && fp.all isDigit
    | _ => false)

theorem isDigit_digitChar (d : Nat) : isDigit (digitChar d) = true := by
  unfold digitChar
  have h : d % 10 < 10 := Nat.mod_lt _ (by decide)
  generalize d % 10 = k at h
  have : ∀ k : Fin 10, isDigit (Char.ofNat (48 + k.val)) = true := by decide
  exact this ⟨k, h⟩

theorem digitChar_ne_dot (d : Nat) : digitChar d ≠ '.' := by
  intro h
  have := isDigit_digitChar d
  rw [h] at this
  exact absurd this (by decide)

theorem digitChar_ne_minus (d : Nat) : digitChar d ≠ '-' := by
  intro h
  have := isDigit_digitChar d
  rw [h] at this
  exact absurd this (by decide)

theorem natDigitsAux_spec : ∀ (fuel n : Nat) (acc : List Char), 0 < fuel →
    ∃ pre, natDigitsAux fuel n acc = pre ++ acc ∧ pre ≠ [] ∧ ∀ c ∈ pre, isDigit c = true := by
  intro fuel
  induction fuel with
  | zero => intro n acc h; cases h
  | succ k ih =>
    intro n acc _
    unfold natDigitsAux
    split
    · exact ⟨[digitChar n], rfl, by simp, by intro c hc; simp at hc; rw [hc]; exact isDigit_digitChar n⟩
    · cases k with
      | zero =>
        refine ⟨[digitChar (n % 10)], ?_, by simp, by intro c hc; simp at hc; rw [hc]; exact isDigit_digitChar _⟩
        simp [natDigitsAux]
      | succ j =>
        obtain ⟨pre, h1, h2, h3⟩ := ih (n / 10) (digitChar (n % 10) :: acc) (Nat.succ_pos j)
        refine ⟨pre ++ [digitChar (n % 10)], ?_, by simp, ?_⟩
        · rw [h1]; simp
        · intro c hc
          rcases List.mem_append.1 hc with hc | hc
          · exact h3 c hc
          · simp at hc; rw [hc]; exact isDigit_digitChar _

theorem natDigits_spec (n : Nat) : natDigits n ≠ [] ∧ ∀ c ∈ natDigits n, isDigit c = true := by
  obtain ⟨pre, h1, h2, h3⟩ := natDigitsAux_spec (Nat.log2 n + 1) n [] (Nat.succ_pos _)
  unfold natDigits
  rw [h1, List.append_nil]
  exact ⟨h2, h3⟩

theorem pad6_all (f : Nat) : ∀ c ∈ pad6 f, isDigit c = true := by
  intro c hc
  simp only [pad6, List.mem_cons, List.mem_nil_iff, or_false] at hc
  rcases hc with h | h | h | h | h | h <;> rw [h] <;> exact isDigit_digitChar _

theorem pad6_length (f : Nat) : (pad6 f).length = 6 := rfl

/-! `rstrip` on structured text -/

theorem rstrip_all_digits_noop_dot (l : List Char) (hne : l ≠ []) (h : ∀ c ∈ l, isDigit c = true) :
    rstrip '.' l = l := by
  unfold rstrip
  have hr : l.reverse ≠ [] := by simpa using hne
  cases hrev : l.reverse with
  | nil => exact absurd hrev hr
  | cons a t =>
    have ha : a ∈ l := by
      have : a ∈ l.reverse := by rw [hrev]; simp
      simpa using this
    have hd : isDigit a = true := h a ha
    have hne' : (a == '.') = false := by
      cases hq : (a == '.')
      · rfl
      · have : a = '.' := by simpa using hq
        rw [this] at hd; exact absurd hd (by decide)
    simp only [List.dropWhile_cons, hne']
    rw [← hrev]; simp

theorem rstrip_subset (c : Char) (l : List Char) : ∀ x ∈ rstrip c l, x ∈ l := by
  intro x hx
  unfold rstrip at hx
  have : x ∈ l.reverse.dropWhile (· == c) := by simpa using hx
  have := (List.dropWhile_sublist _).subset this
  simpa using this

theorem rstrip_length_le (c : Char) (l : List Char) : (rstrip c l).length ≤ l.length := by
  unfold rstrip
  have := (List.dropWhile_sublist (fun x => x == c) (l := l.reverse)).length_le
  simpa using this

/-- stripping `c` from `A ++ B`: only `B` is affected unless all of `B` goes -/
theorem rstrip_append (c : Char) (A B : List Char) :
    rstrip c (A ++ B) = if rstrip c B = [] then rstrip c A else A ++ rstrip c B := by
  unfold rstrip
  rw [List.reverse_append, List.dropWhile_append]
  by_cases h : (B.reverse.dropWhile (· == c)).isEmpty = true
  · have h' : B.reverse.dropWhile (· == c) = [] := by simpa using h
    simp [h']
  · have h' : B.reverse.dropWhile (· == c) ≠ [] := by simpa using h
    simp [h']

theorem rstrip_last_ne (c : Char) (l : List Char) (h : rstrip c l ≠ []) :
    ∃ t a, rstrip c l = t ++ [a] ∧ a ≠ c := by
  unfold rstrip at *
  cases hd : l.reverse.dropWhile (· == c) with
  | nil => rw [hd] at h; simp at h
  | cons a t =>
    refine ⟨t.reverse, a, by simp, ?_⟩
    have hw : List.dropWhile (fun x => x == c) l.reverse ≠ [] := by rw [hd]; simp
    have := List.head_dropWhile_not (fun x => x == c) hw
    simp only [hd, List.head_cons] at this
    simpa using this


theorem tw_all (p : Char → Bool) (D r : List Char) (h : ∀ c ∈ D, p c = true) :
    (D ++ r).takeWhile p = D ++ r.takeWhile p := by
  induction D with
  | nil => rfl
  | cons d t ih =>
    have hd : p d = true := h d (by simp)
    simp only [List.cons_append, List.takeWhile_cons, hd, if_true]
    rw [ih (fun c hc => h c (by simp [hc]))]

theorem dw_all (p : Char → Bool) (D r : List Char) (h : ∀ c ∈ D, p c = true) :
    (D ++ r).dropWhile p = r.dropWhile p := by
  induction D with
  | nil => rfl
  | cons d t ih =>
    have hd : p d = true := h d (by simp)
    simp only [List.cons_append, List.dropWhile_cons, hd, if_true]
    exact ih (fun c hc => h c (by simp [hc]))

/-- the two possible outcomes of the stripping are of the required shape -/
theorem shape_of_parts (s : Bool) (D F : List Char) (hD : D ≠ []) (hDd : ∀ c ∈ D, isDigit c = true)
    (hF : F = [] ∨ (F.length ≤ 6 ∧ ∀ c ∈ F, isDigit c = true)) :
    shapeOK ((if s then ['-'] else []) ++ D ++ (if F = [] then [] else '.' :: F)) = true := by
  obtain ⟨d, t, rfl⟩ : ∃ d t, D = d :: t := by
    cases D with
    | nil => exact absurd rfl hD
    | cons d t => exact ⟨d, t, rfl⟩
  have hd : isDigit d = true := hDd d (by simp)
  have hdm : d ≠ '-' := by
    intro h; rw [h] at hd; exact absurd hd (by decide)
  -- what remains after the optional sign
  have key : ∀ rest : List Char, (rest = [] ∨ ∃ F', rest = '.' :: F' ∧ F' ≠ [] ∧ F'.length ≤ 6 ∧ ∀ c ∈ F', isDigit c = true) →
      (!((d :: t ++ rest).takeWhile isDigit).isEmpty && (match (d :: t ++ rest).dropWhile isDigit with
        | [] => true
        | '.' :: fp => !fp.isEmpty && decide (fp.length ≤ 6) && fp.all isDigit
        | _ => false)) = true := by
    intro rest hrest
    rw [tw_all isDigit (d :: t) rest hDd, dw_all isDigit (d :: t) rest hDd]
    rcases hrest with rfl | ⟨F', rfl, hne, hlen, hall⟩
    · simp
    · have hdot : isDigit '.' = false := by decide
      simp only [List.dropWhile_cons, hdot, Bool.false_eq_true, if_false]
      simp only [List.cons_append, List.isEmpty_cons, Bool.not_false, Bool.true_and]
      have h1 : F'.isEmpty = false := by
        cases F' with
        | nil => exact absurd rfl hne
        | cons _ _ => rfl
      have h3 : F'.all isDigit = true := List.all_eq_true.2 hall
      simp [h1, hlen, h3]
  have hrest : (if F = [] then ([] : List Char) else '.' :: F) = [] ∨
      ∃ F', (if F = [] then ([] : List Char) else '.' :: F) = '.' :: F' ∧ F' ≠ [] ∧ F'.length ≤ 6 ∧ ∀ c ∈ F', isDigit c = true := by
    by_cases hF0 : F = []
    · left; simp [hF0]
    · right
      rcases hF with h | ⟨h1, h2⟩
      · exact absurd h hF0
      · exact ⟨F, by simp [hF0], hF0, h1, h2⟩
  have := key _ hrest
  unfold shapeOK
  cases s with
  | true =>
    simp only [if_true, List.cons_append, List.nil_append]
    exact this
  | false =>
    simp only [Bool.false_eq_true, if_false, List.nil_append, List.cons_append]
    split
    · rename_i r heq
      have : d = '-' := by
        simp only [List.cons.injEq] at heq; exact heq.1
      exact absurd this hdm
    · rename_i r hnot
      exact this

/-- digits before the point of `'%.6f' % y` -/
def intDigits (m : Nat) : List Char := natDigits (roundHE (m * 1000000) U / 1000000)
/-- digits after the point that survive the stripping -/
def fracDigits (m : Nat) : List Char := rstrip '0' (pad6 (roundHE (m * 1000000) U % 1000000))

/-- `'%.6f'` text of a finite value, stripped as `format_float` strips it: sign, digits, and either nothing or a
point followed by 1–6 digits. -/
theorem strip_fmt6 (s : Bool) (m : Nat) :
    ∃ D F, D = intDigits m ∧ F = fracDigits m ∧
      D ≠ [] ∧ (∀ c ∈ D, isDigit c = true) ∧ (F = [] ∨ (F.length ≤ 6 ∧ ∀ c ∈ F, isDigit c = true)) ∧
      rstrip '.' (rstrip '0' (fmt6 (.fin s m))) =
        (if s then ['-'] else []) ++ D ++ (if F = [] then [] else '.' :: F) ∧
      (fmt6 (.fin s m)).contains '.' = true := by
  let n := roundHE (m * 1000000) U
  let sg : List Char := if s then ['-'] else []
  let D := natDigits (n / 1000000)
  let F0 := pad6 (n % 1000000)
  obtain ⟨hD1, hD2⟩ := natDigits_spec (n / 1000000)
  have hT : fmt6 (.fin s m) = (sg ++ D ++ ['.']) ++ F0 := by
    show sg ++ D ++ '.' :: F0 = _
    simp
  have hF0 : ∀ c ∈ F0, isDigit c = true := pad6_all _
  let F := rstrip '0' F0
  have hFsub : ∀ c ∈ F, isDigit c = true := fun c hc => hF0 c (rstrip_subset _ _ c hc)
  have hFlen : F.length ≤ 6 := by
    have := rstrip_length_le '0' F0
    simpa [F0, pad6_length] using this
  have hdot0 : rstrip '0' ['.'] = ['.'] := by decide
  have hdotd : rstrip '.' ['.'] = [] := by decide
  have hsgD : rstrip '.' (sg ++ D) = sg ++ D := by
    have hD1' : D ≠ [] := hD1
    rw [rstrip_append, rstrip_all_digits_noop_dot D hD1 hD2, if_neg hD1']
  refine ⟨D, F, rfl, rfl, hD1, hD2, ?_, ?_, ?_⟩
  · by_cases h : F = []
    · exact Or.inl h
    · exact Or.inr ⟨hFlen, hFsub⟩
  · rw [hT, rstrip_append '0']
    by_cases h : F = []
    · have h' : rstrip '0' F0 = [] := h
      simp only [h', if_true]
      have : rstrip '0' (sg ++ D ++ ['.']) = sg ++ D ++ ['.'] := by
        rw [rstrip_append, hdot0]; simp
      rw [this, rstrip_append '.', hdotd]
      simp only [if_true]
      rw [hsgD]
      simp only [h, if_true, List.append_nil]
      rfl
    · have h' : rstrip '0' F0 ≠ [] := h
      simp only [h', if_false]
      rw [rstrip_append '.', rstrip_all_digits_noop_dot F h hFsub]
      simp only [h, if_false]
      simp only [List.append_assoc, List.singleton_append]
      rfl
  · rw [hT]
    simp


end B64

/-! Part 6: doubles are representable magnitudes; `x + 0.0`. -/
namespace B64

/-- representable magnitude: a multiple of the quantum of its own binade -/
def Rep (m : Nat) : Prop := 2 ^ quantExp m ∣ m

theorem roundHE_of_dvd (n d : Nat) (hd : 0 < d) (h : d ∣ n) : roundHE n d = n / d := by
  unfold roundHE
  have : n % d = 0 := Nat.mod_eq_zero_of_dvd h
  simp only [this, Nat.mul_zero, hd, if_true]

/-- rounding is the identity on representable magnitudes -/
theorem roundMag_rep (m : Nat) (h : Rep m) : roundMag m 1 = m := by
  unfold roundMag
  simp only [Nat.div_one, Nat.one_mul]
  have hp : 0 < 2 ^ quantExp m := Nat.pow_pos (by decide)
  rw [roundHE_of_dvd m _ hp h]
  exact Nat.div_mul_cancel h

theorem add_zero_rep (s : Bool) (m : Nat) (h : Rep m) (hlt : m < maxMag) :
    add (.fin s m) zero = if m = 0 then .fin false 0 else .fin s m := by
  show ofInt ((Val.fin s m).toInt + (Val.fin false 0).toInt) (s && false) = _
  by_cases hm : m = 0
  · subst hm
    cases s <;> simp [Val.toInt, ofInt]
  · simp only [hm, if_false]
    cases s with
    | false =>
      have : (Val.fin false m).toInt + (Val.fin false 0).toInt = (m : Int) := by simp [Val.toInt]
      rw [this, ofInt_natCast_pos m (by omega)]
      unfold rnd
      rw [roundMag_rep m h]
      simp [hlt]
    | true =>
      have hv : (Val.fin true m).toInt + (Val.fin false 0).toInt = -(m : Int) := by simp [Val.toInt]
      rw [hv]
      unfold ofInt
      have h1 : ((-(m : Int)) == 0) = false := by simp; omega
      have h2 : decide (-(m : Int) < 0) = true := by simp; omega
      simp only [h1, Bool.false_eq_true, if_false, h2, Int.natAbs_neg, Int.natAbs_natCast]
      unfold rnd
      rw [roundMag_rep m h]
      simp [hlt]

theorem rep_small (f : Nat) (hf : f < 2 ^ 52) : Rep f := by
  unfold Rep quantExp
  have : f.log2 - 52 = 0 := by
    by_cases h0 : f = 0
    · subst h0; decide
    · have := (Nat.log2_lt h0).2 hf
      omega
  rw [this]; simp

theorem rep_normal (f k : Nat) (hf : f < 2 ^ 52) : Rep ((2 ^ 52 + f) * 2 ^ k) ∧ (2 ^ 52 + f) * 2 ^ k < 2 ^ (53 + k) := by
  have hp : 0 < 2 ^ k := Nat.pow_pos (by decide)
  have hm : (2 ^ 52 + f) * 2 ^ k ≠ 0 := by
    have : 0 < (2 ^ 52 + f) * 2 ^ k := Nat.mul_pos (by omega) hp
    omega
  have hlo : 2 ^ (52 + k) ≤ (2 ^ 52 + f) * 2 ^ k := by
    rw [Nat.pow_add]; exact Nat.mul_le_mul_right _ (by omega)
  have hhi : (2 ^ 52 + f) * 2 ^ k < 2 ^ (52 + k + 1) := by
    have : 2 ^ (52 + k + 1) = 2 ^ 53 * 2 ^ k := by
      rw [show 52 + k + 1 = 53 + k by omega, Nat.pow_add]
    rw [this]
    exact Nat.mul_lt_mul_of_pos_right (by omega) hp
  have hlog : ((2 ^ 52 + f) * 2 ^ k).log2 = 52 + k := (Nat.log2_eq_iff hm).2 ⟨hlo, hhi⟩
  refine ⟨?_, by rw [show 53 + k = 52 + k + 1 by omega]; exact hhi⟩
  unfold Rep quantExp
  rw [hlog, show 52 + k - 52 = k by omega]
  exact Dvd.intro_left _ rfl

/-- every finite bit pattern decodes to a representable magnitude below 2^1024 -/
theorem decode_rep (w : UInt64) (s : Bool) (m : Nat) (h : decode w = .fin s m) : Rep m ∧ m < maxMag := by
  unfold decode at h
  simp only at h
  have hf : w.toNat % 2 ^ 52 < 2 ^ 52 := Nat.mod_lt _ (by decide)
  have he : (w.toNat / 2 ^ 52) % 2048 < 2048 := Nat.mod_lt _ (by decide)
  generalize w.toNat % 2 ^ 52 = f at h hf
  generalize (w.toNat / 2 ^ 52) % 2048 = e at h he
  split at h
  · split at h <;> cases h
  · rename_i h47
    split at h
    · simp only [Val.fin.injEq] at h
      obtain ⟨_, rfl⟩ := h
      exact ⟨rep_small f hf, Nat.lt_trans hf (by decide +kernel)⟩
    · rename_i h0
      simp only [Val.fin.injEq] at h
      obtain ⟨_, rfl⟩ := h
      have h47' : e ≠ 2047 := by simpa using h47
      have h0' : e ≠ 0 := by simpa using h0
      obtain ⟨h1, h2⟩ := rep_normal f (e - 1) hf
      refine ⟨h1, Nat.lt_of_lt_of_le h2 ?_⟩
      unfold maxMag
      exact Nat.pow_le_pow_right (by decide) (by omega)

/-- `x + 0.0` of a finite double is the same value (with -0.0 becoming +0.0): in particular finite -/
theorem add_zero_decode (w : UInt64) (s : Bool) (m : Nat) (h : decode w = .fin s m) :
    add (decode w) zero = if m = 0 then .fin false 0 else .fin s m := by
  obtain ⟨h1, h2⟩ := decode_rep w s m h
  rw [h]; exact add_zero_rep s m h1 h2

theorem add_zero_decode_finite (w : UInt64) (h : (decode w).isFinite = true) : (add (decode w) zero).isFinite = true := by
  cases hd : decode w with
  | fin s m =>
    rw [← hd, add_zero_decode w s m hd]
    split <;> rfl
  | inf s => rw [hd] at h; cases h
  | nan => rw [hd] at h; cases h

end B64

/-! Part 7: value of the text (`decVal`), the `-0` class, closeness. -/
namespace B64

/-- exact rational value of plain decimal text `-?digits[.digits]` -/
def decVal (l : List Char) : Rat :=
  let neg := match l with
    | '-' :: _ => true
    | _ => false
  let l := match l with
    | '-' :: r => r
    | r => r
  let ip := l.takeWhile isDigit
  let fp := match l.dropWhile isDigit with
    | '.' :: f => f
    | _ => []
  let v : Rat := ((digitsVal ip : Nat) : Rat) + ((digitsVal fp : Nat) : Rat) / ((10 ^ fp.length : Nat) : Rat)
  if neg then -v else v

theorem digitsVal_snoc (l : List Char) (c : Char) : digitsVal (l ++ [c]) = digitsVal l * 10 + (c.toNat - 48) := by
  simp [digitsVal, List.foldl_append]

theorem digitChar_val (d : Nat) : (digitChar d).toNat - 48 = d % 10 := by
  unfold digitChar
  have h : d % 10 < 10 := Nat.mod_lt _ (by decide)
  generalize d % 10 = k at h
  have : ∀ k : Fin 10, (Char.ofNat (48 + k.val)).toNat - 48 = k.val := by decide
  exact this ⟨k, h⟩

theorem natDigitsAux_val : ∀ (fuel n : Nat) (acc : List Char), n < 10 ^ fuel →
    ∃ pre, natDigitsAux fuel n acc = pre ++ acc ∧ digitsVal pre = n := by
  intro fuel
  induction fuel with
  | zero =>
    intro n acc h
    have : n = 0 := by simpa using h
    subst this
    exact ⟨[], rfl, rfl⟩
  | succ k ih =>
    intro n acc h
    unfold natDigitsAux
    split
    · rename_i hlt
      refine ⟨[digitChar n], rfl, ?_⟩
      have := digitsVal_snoc [] (digitChar n)
      simp only [List.nil_append] at this
      rw [this, digitChar_val]
      simp [digitsVal]; omega
    · rename_i hge
      have hdiv : n / 10 < 10 ^ k := by
        rw [Nat.div_lt_iff_lt_mul (by decide)]
        rw [Nat.pow_succ] at h; exact h
      obtain ⟨pre, h1, h2⟩ := ih (n / 10) (digitChar (n % 10) :: acc) hdiv
      refine ⟨pre ++ [digitChar (n % 10)], by rw [h1]; simp, ?_⟩
      rw [digitsVal_snoc, h2, digitChar_val]
      omega

theorem natDigits_val (n : Nat) : digitsVal (natDigits n) = n := by
  have hb : n < 10 ^ (Nat.log2 n + 1) :=
    Nat.lt_of_lt_of_le Nat.lt_log2_self (Nat.pow_le_pow_left (by decide) _)
  obtain ⟨pre, h1, h2⟩ := natDigitsAux_val (Nat.log2 n + 1) n [] hb
  unfold natDigits
  rw [h1, List.append_nil]; exact h2

theorem pad6_val (f : Nat) (h : f < 1000000) : digitsVal (pad6 f) = f := by
  have e : ∀ (a b c d e g : Char), digitsVal [a, b, c, d, e, g] =
      (((((0 * 10 + (a.toNat - 48)) * 10 + (b.toNat - 48)) * 10 + (c.toNat - 48)) * 10 + (d.toNat - 48)) * 10
        + (e.toNat - 48)) * 10 + (g.toNat - 48) := by
    intros; rfl
  unfold pad6
  rw [e]
  simp only [digitChar_val]
  omega

theorem digitsVal_zeros (l : List Char) (j : Nat) :
    digitsVal (l ++ List.replicate j '0') = digitsVal l * 10 ^ j := by
  induction j generalizing l with
  | zero => simp
  | succ k ih =>
    have : l ++ List.replicate (k + 1) '0' = (l ++ ['0']) ++ List.replicate k '0' := by
      simp [List.replicate_succ]
    rw [this, ih, digitsVal_snoc]
    have : ('0' : Char).toNat - 48 = 0 := by decide
    rw [this, Nat.pow_succ]
    simp [Nat.mul_assoc, Nat.mul_comm]

theorem mem_takeWhile_pos (p : Char → Bool) : ∀ (l : List Char) (x : Char), x ∈ l.takeWhile p → p x = true := by
  intro l
  induction l with
  | nil => intro x hx; cases hx
  | cons a t ih =>
    intro x hx
    rw [List.takeWhile_cons] at hx
    split at hx
    · rename_i ha
      rcases List.mem_cons.1 hx with h | h
      · rw [h]; exact ha
      · exact ih x h
    · cases hx

theorem rstrip_decomp (c : Char) (l : List Char) : ∃ j, l = rstrip c l ++ List.replicate j c := by
  unfold rstrip
  refine ⟨(l.reverse.takeWhile (· == c)).length, ?_⟩
  have h := List.takeWhile_append_dropWhile (p := (· == c)) (l := l.reverse)
  have hall : ∀ x ∈ l.reverse.takeWhile (· == c), x = c := by
    intro x hx
    have := mem_takeWhile_pos (· == c) _ x hx
    simpa using this
  have hrep : l.reverse.takeWhile (· == c) = List.replicate (l.reverse.takeWhile (· == c)).length c :=
    List.eq_replicate_iff.2 ⟨rfl, hall⟩
  have : l = (l.reverse.dropWhile (· == c)).reverse ++ (l.reverse.takeWhile (· == c)).reverse := by
    rw [← List.reverse_append, h, List.reverse_reverse]
  rw [hrep, List.reverse_replicate] at this
  exact this


theorem decVal_parts (s : Bool) (D F : List Char) (hD : D ≠ []) (hDd : ∀ c ∈ D, isDigit c = true) :
    decVal ((if s then ['-'] else []) ++ D ++ (if F = [] then [] else '.' :: F)) =
      (if s then -1 else 1) * (((digitsVal D : Nat) : Rat) + ((digitsVal F : Nat) : Rat) / ((10 ^ F.length : Nat) : Rat)) := by
  obtain ⟨d, t, rfl⟩ : ∃ d t, D = d :: t := by
    cases D with
    | nil => exact absurd rfl hD
    | cons d t => exact ⟨d, t, rfl⟩
  have hd : isDigit d = true := hDd d (by simp)
  have hdm : d ≠ '-' := by
    intro h; rw [h] at hd; exact absurd hd (by decide)
  have hdot : isDigit '.' = false := by decide
  -- the part after the sign
  have body : ∀ rest : List Char, rest = (if F = [] then [] else '.' :: F) →
      (((digitsVal ((d :: t ++ rest).takeWhile isDigit) : Nat) : Rat) +
        ((digitsVal (match (d :: t ++ rest).dropWhile isDigit with | '.' :: f => f | _ => []) : Nat) : Rat) /
          ((10 ^ (match (d :: t ++ rest).dropWhile isDigit with | '.' :: f => f | _ => []).length : Nat) : Rat)) =
      ((digitsVal (d :: t) : Nat) : Rat) + ((digitsVal F : Nat) : Rat) / ((10 ^ F.length : Nat) : Rat) := by
    intro rest hrest
    rw [tw_all isDigit (d :: t) rest hDd, dw_all isDigit (d :: t) rest hDd]
    by_cases hF0 : F = []
    · subst hF0
      simp only [if_true] at hrest
      subst hrest
      simp
    · simp only [hF0, if_false] at hrest
      subst hrest
      simp only [List.takeWhile_cons, hdot, Bool.false_eq_true, if_false, List.append_nil, List.dropWhile_cons]
  unfold decVal
  cases s with
  | true =>
    simp only [if_true, List.cons_append, List.nil_append]
    have := body _ rfl
    simp only [List.cons_append] at this
    rw [this]; ring
  | false =>
    simp only [Bool.false_eq_true, if_false, List.nil_append, List.cons_append]
    have h1 : (match d :: (t ++ if F = [] then [] else '.' :: F) with | '-' :: _ => true | _ => false) = false := by
      split
      · rename_i r heq
        simp only [List.cons.injEq] at heq
        exact absurd heq.1 hdm
      · rfl
    have h2 : (match d :: (t ++ if F = [] then [] else '.' :: F) with | '-' :: r => r | r => r) =
        d :: (t ++ if F = [] then [] else '.' :: F) := by
      split
      · rename_i r heq
        simp only [List.cons.injEq] at heq
        exact absurd heq.1 hdm
      · rfl
    rw [h1, h2]
    have := body _ rfl
    simp only [List.cons_append] at this
    simp only [Bool.false_eq_true, if_false]
    rw [this]; ring

/-- `roundHE a d` is within half of `a / d` -/
theorem roundHE_spec (a d : Nat) (hd : 0 < d) :
    2 * (roundHE a d * d) ≤ 2 * a + d ∧ 2 * a ≤ 2 * (roundHE a d * d) + d := by
  have hdm := Nat.div_add_mod a d
  have hr : a % d < d := Nat.mod_lt _ hd
  unfold roundHE
  simp only
  generalize a / d = q at *
  generalize a % d = r at *
  have e1 : (q + 1) * d = d * q + d := by rw [Nat.add_mul, Nat.mul_comm]; simp
  have e0 : q * d = d * q := Nat.mul_comm _ _
  split
  · rw [e0]; omega
  · split
    · rw [e1]; omega
    · split
      · rw [e0]; omega
      · rw [e1]; omega


/-- characters of plain decimal notation -/
def plainChar (c : Char) : Bool := c == '-' || c == '.' || isDigit c

/-- explicit text of `format_float` for a value whose `x + 0.0` is the finite `±m` -/
theorem formatFloat_eq (x : Val) (s : Bool) (m : Nat) (hadd : add x zero = .fin s m) :
    formatFloat x = (if s then ['-'] else []) ++ intDigits m ++ (if fracDigits m = [] then [] else '.' :: fracDigits m) := by
  obtain ⟨D, F, rfl, rfl, _, _, _, hstrip, hcont⟩ := strip_fmt6 s m
  unfold formatFloat
  simp only [hadd, hcont, if_true]
  exact hstrip

theorem formatFloat_shape (x : Val) (hy : (add x zero).isFinite = true) :
    shapeOK (formatFloat x) = true ∧ ∀ c ∈ formatFloat x, plainChar c = true := by
  cases hadd : add x zero with
  | inf s => rw [hadd] at hy; cases hy
  | nan => rw [hadd] at hy; cases hy
  | fin s m =>
    obtain ⟨D, F, hDe, hFe, hD1, hD2, hF, _, _⟩ := strip_fmt6 s m
    rw [formatFloat_eq x s m hadd, ← hDe, ← hFe]
    refine ⟨shape_of_parts s D F hD1 hD2 hF, ?_⟩
    intro c hc
    simp only [List.mem_append] at hc
    rcases hc with (hc | hc) | hc
    · cases s <;> simp at hc
      rw [hc]; decide
    · simp [plainChar, hD2 c hc]
    · by_cases hF0 : F = []
      · simp [hF0] at hc
      · simp only [hF0, if_false, List.mem_cons] at hc
        rcases hc with hc | hc
        · rw [hc]; decide
        · rcases hF with h | ⟨_, h⟩
          · exact absurd h hF0
          · simp [plainChar, h c hc]

theorem intDigits_val (m : Nat) : digitsVal (intDigits m) = roundHE (m * 1000000) U / 1000000 := natDigits_val _

theorem fracDigits_val (m : Nat) : ∃ j, digitsVal (fracDigits m) * 10 ^ j = roundHE (m * 1000000) U % 1000000 ∧
    (fracDigits m).length + j = 6 := by
  obtain ⟨j, hj⟩ := rstrip_decomp '0' (pad6 (roundHE (m * 1000000) U % 1000000))
  refine ⟨j, ?_, ?_⟩
  · have := pad6_val (roundHE (m * 1000000) U % 1000000) (Nat.mod_lt _ (by decide))
    rw [hj, digitsVal_zeros] at this
    exact this
  · have := congrArg List.length hj
    simp only [pad6_length, List.length_append, List.length_replicate] at this
    exact this.symm

/-- **`format_float` prints `-0` exactly for the negative values that round to zero at six places.** -/
theorem formatFloat_minus_zero_iff (x : Val) (hy : (add x zero).isFinite = true) :
    formatFloat x = ['-', '0'] ↔ negRoundsToZero x = true := by
  cases hadd : add x zero with
  | inf s => rw [hadd] at hy; cases hy
  | nan => rw [hadd] at hy; cases hy
  | fin s m =>
    obtain ⟨D, F, hDe, hFe, hD1, hD2, hF, _, _⟩ := strip_fmt6 s m
    rw [formatFloat_eq x s m hadd]
    unfold negRoundsToZero
    simp only [hadd]
    constructor
    · intro h
      -- the sign must be there: otherwise the text starts with a digit
      cases s with
      | false =>
        exfalso
        simp only [Bool.false_eq_true, if_false, List.nil_append] at h
        rw [← hDe] at h
        cases D with
        | nil => exact hD1 rfl
        | cons d t =>
          simp only [List.cons_append, List.cons.injEq] at h
          have := hD2 d (by simp)
          rw [h.1] at this
          exact absurd this (by decide)
      | true =>
        simp only [if_true, List.cons_append, List.nil_append, List.cons.injEq, true_and] at h
        -- intDigits ++ tail = ['0']
        have hD0 : intDigits m = ['0'] ∧ fracDigits m = [] := by
          rw [← hDe, ← hFe] at h ⊢
          cases D with
          | nil => exact absurd rfl hD1
          | cons d t =>
            simp only [List.cons_append, List.cons.injEq] at h
            obtain ⟨hd, ht⟩ := h
            have ht' : t = [] ∧ (if F = [] then ([] : List Char) else '.' :: F) = [] := List.append_eq_nil_iff.1 ht
            refine ⟨by rw [hd, ht'.1], ?_⟩
            by_cases hF0 : F = []
            · exact hF0
            · have := ht'.2
              simp [hF0] at this
        have h1 := intDigits_val m
        rw [hD0.1] at h1
        obtain ⟨j, h2, _⟩ := fracDigits_val m
        rw [hD0.2] at h2
        have h1' : roundHE (m * 1000000) U / 1000000 = 0 := by
          rw [← h1]; decide
        have h2' : roundHE (m * 1000000) U % 1000000 = 0 := by
          rw [← h2]; simp [digitsVal]
        have : roundHE (m * 1000000) U = 0 := by omega
        simp [this]
    · intro h
      cases s with
      | false => simp at h
      | true =>
        have hn : roundHE (m * 1000000) U = 0 := by simpa using h
        have e1 : intDigits m = ['0'] := by
          unfold intDigits; rw [hn]; decide
        have e2 : fracDigits m = [] := by
          unfold fracDigits; rw [hn]; decide
        rw [e1, e2]; rfl


theorem U_pos : 0 < U := by unfold U; exact Nat.pow_pos (by decide)

/-- exact rational value of the finite `±m` units -/
def ratOf (s : Bool) (m : Nat) : Rat := (if s then -1 else 1) * ((m : Rat) / (U : Rat))

theorem toRat?_fin (s : Bool) (m : Nat) : toRat? (.fin s m) = some (ratOf s m) := by
  unfold toRat? ratOf
  cases s <;> simp [neg_div]

/-- the decimal number printed by `'%.6f'` is within half a unit of the sixth place -/
theorem round6_close (m : Nat) :
    |((roundHE (m * 1000000) U : Nat) : Rat) / 1000000 - (m : Rat) / (U : Rat)| ≤ 5 / 10000000 := by
  obtain ⟨h1, h2⟩ := roundHE_spec (m * 1000000) U U_pos
  have hU : (0 : Rat) < (U : Rat) := by exact_mod_cast U_pos
  generalize roundHE (m * 1000000) U = n at h1 h2
  have h1' : (2 : Rat) * ((n : Rat) * (U : Rat)) ≤ 2 * ((m : Rat) * 1000000) + (U : Rat) := by exact_mod_cast h1
  have h2' : (2 : Rat) * ((m : Rat) * 1000000) ≤ 2 * ((n : Rat) * (U : Rat)) + (U : Rat) := by exact_mod_cast h2
  generalize (U : Rat) = u at *
  generalize (n : Rat) = a at *
  generalize (m : Rat) = b at *
  have key : a / 1000000 - b / u = (a * u - b * 1000000) / (1000000 * u) := by
    rw [div_sub_div _ _ (by norm_num) (ne_of_gt hU)]
    ring
  rw [key, abs_le]
  have hpos : (0 : Rat) < 1000000 * u := by positivity
  constructor
  · rw [le_div_iff₀ hpos]; linarith
  · rw [div_le_iff₀ hpos]; linarith

/-- **the decimal value of `format_float(x)` is within 5e-7 of `x + 0.0`** -/
theorem formatFloat_close (x : Val) (s : Bool) (m : Nat) (hadd : add x zero = .fin s m) :
    |decVal (formatFloat x) - ratOf s m| ≤ 5 / 10000000 := by
  obtain ⟨D, F, hDe, hFe, hD1, hD2, _, _, _⟩ := strip_fmt6 s m
  rw [formatFloat_eq x s m hadd, ← hDe, ← hFe, decVal_parts s D F hD1 hD2]
  have hip := intDigits_val m
  obtain ⟨j, hfp, hlen⟩ := fracDigits_val m
  rw [← hDe] at hip
  rw [← hFe] at hfp hlen
  set n := roundHE (m * 1000000) U with hn
  have hval : ((digitsVal D : Nat) : Rat) + ((digitsVal F : Nat) : Rat) / ((10 ^ F.length : Nat) : Rat) = (n : Rat) / 1000000 := by
    have hdm : n = 1000000 * (n / 1000000) + n % 1000000 := (Nat.div_add_mod n 1000000).symm
    have h10 : ((10 ^ F.length : Nat) : Rat) * ((10 ^ j : Nat) : Rat) = 1000000 := by
      rw [← Nat.cast_mul, ← Nat.pow_add, hlen]; norm_num
    have hj : ((10 ^ j : Nat) : Rat) ≠ 0 := by positivity
    have hF' : ((10 ^ F.length : Nat) : Rat) ≠ 0 := by positivity
    have e1 : ((digitsVal F : Nat) : Rat) / ((10 ^ F.length : Nat) : Rat) = ((n % 1000000 : Nat) : Rat) / 1000000 := by
      rw [← hfp, Nat.cast_mul, ← h10]
      field_simp
    rw [e1, hip]
    have : (n : Rat) = 1000000 * ((n / 1000000 : Nat) : Rat) + ((n % 1000000 : Nat) : Rat) := by
      exact_mod_cast hdm
    rw [this]; ring
  rw [hval]
  unfold ratOf
  have := round6_close m
  rw [← hn] at this
  cases s with
  | false => simpa using this
  | true =>
    have e : (-1 : Rat) * ((n : Rat) / 1000000) - -1 * ((m : Rat) / (U : Rat)) = -((n : Rat) / 1000000 - (m : Rat) / (U : Rat)) := by ring
    simp only [if_true]
    rw [e, abs_neg]; exact this

end B64

namespace B64

/-- a non-negative value is never printed as `-0` -/
theorem negRoundsToZero_nonneg (b : Nat) : negRoundsToZero (.fin false b) = false := by
  unfold negRoundsToZero
  have : add (.fin false b) zero = ofInt (b : Int) false := by
    show ofInt ((Val.fin false b).toInt + (Val.fin false 0).toInt) (false && false) = _
    simp [Val.toInt]
  rw [this]
  by_cases hb : b = 0
  · subst hb; rfl
  · rw [ofInt_natCast_pos b (by omega)]
    unfold rnd
    simp only
    by_cases hlt : roundMag b 1 < maxMag
    · simp only [hlt, if_true]
    · simp only [hlt, if_false]

theorem add_zero_angle_finite (b : Nat) (hb : b < M360) : (add (.fin false b) zero).isFinite = true := by
  have : add (.fin false b) zero = ofInt (b : Int) false := by
    show ofInt ((Val.fin false b).toInt + (Val.fin false 0).toInt) (false && false) = _
    simp [Val.toInt]
  rw [this]
  by_cases h0 : b = 0
  · subst h0; rfl
  · rw [ofInt_natCast_pos b (by omega)]
    unfold rnd
    have hle := roundMag_le_M360 b (by omega) hb
    have : roundMag b 1 < maxMag := Nat.lt_of_le_of_lt hle M360_lt_maxMag
    simp [this, Val.isFinite]

end B64

/-! Part 8: copies are equal to their source. -/
namespace B64

theorem mod360_idem (b : Nat) (hb : b < M360) : mod360 (.fin false b) = .fin false b := by
  unfold mod360 pyMod
  simp only [c360_eq, fmod]
  have hne : (M360 == 0) = false := by simp; omega
  simp only [hne, Bool.false_eq_true, if_false, Nat.mod_eq_of_lt hb]
  cases b with
  | zero => simp [Val.isZero, Val.signBit]
  | succ n => simp [Val.isZero, Val.ltZero]

theorem norm360_idem (b : Nat) (hb : b < M360) : norm360 (.fin false b) = .fin false b := by
  show pyMod (pyMod _ c360) c360 = _
  have h := mod360_idem b hb
  unfold mod360 at h
  rw [h, h]

end B64

namespace C05
open B64

theorem norm2Q_idem (RS : RoundingSystem) (x : Rat) (h0 : 0 ≤ x) (h : x < 360) : norm2Q RS x = x := by
  have e : pyModQ RS x 360 = x := by
    unfold pyModQ
    simp only [fmodQ_of_lt x 360 h0 h]
    split
    · rename_i hz; exact hz.symm
    · have : ¬ x < 0 := by linarith
      simp [this]
  unfold norm2Q
  rw [e, e]

/-- sites through which copies are made: the class must keep an in-range value (`norm2` or `copyField`, not `zero`) -/
def copySitesOK (sites : List AngleSite) : Bool :=
  [("Angle.__init__", 0), ("Angle.__init__", 1), ("FrozenAngle.__new__", 0), ("FrozenAngle.__new__", 1),
   ("Angle.freeze", 0), ("FrozenAngle.thaw", 0)].all fun (f, n) =>
    [0, 1, 2].all fun s =>
      match siteCls sites f s n with
      | .norm2 | .copyField => true
      | _ => false

variable {α : Type} {N : NumSys α} (L : NumLaws N)

theorem apply_keep {sites : List AngleSite} (hs : copySitesOK sites = true) (hid : ∀ x, L.R x → N.norm2 x = x)
    (f : String) (n : Nat)
    (hm : (f, n) ∈ [("Angle.__init__", 0), ("Angle.__init__", 1), ("FrozenAngle.__new__", 0), ("FrozenAngle.__new__", 1),
      ("Angle.freeze", 0), ("FrozenAngle.thaw", 0)]) (s : Nat) (hsl : s ∈ [0, 1, 2]) (x : α) (hx : L.R x) :
    applyCls N (siteCls sites f s n) x = x := by
  unfold copySitesOK at hs
  rw [List.all_eq_true] at hs
  have h1 := hs _ hm
  simp only [List.all_eq_true] at h1
  have h2 := h1 s hsl
  cases hc : siteCls sites f s n <;> rw [hc] at h2 <;> simp at h2 <;> simp only [applyCls]
  exact hid x hx

/-- **copies are equal to their source**: `freeze`, `thaw`, `Angle(angle)`, `FrozenAngle(angle)` and `Angle.copy()`
(`Angle(p, y, r)` of the own fields) append an object with exactly the source's fields (and, by
`C05_frame_machine`, later calls on one of them never change the other). -/
theorem copy_eq {sites : List AngleSite} (hs : copySitesOK sites = true) (hid : ∀ x, L.R x → N.norm2 x = x)
    {st : State α} (h : Inv L st) {i : Nat} {o : Obj α} (hi : st[i]? = some o) (hk : o.kind.isAngle = true) :
    (o.kind = .ang → (step N sites st (.freeze i)).1 = st ++ [⟨.fang, o.a, o.b, o.c⟩]) ∧
    (o.kind = .fang → (step N sites st (.thaw i)).1 = st ++ [⟨.ang, o.a, o.b, o.c⟩]) ∧
    (∀ fr, (step N sites st (.ctorCopy fr i)).1 = st ++ [⟨Kind.angle fr, o.a, o.b, o.c⟩]) ∧
    (∀ fr, (step N sites st (.ctor fr false o.a o.b o.c)).1 = st ++ [⟨Kind.angle fr, o.a, o.b, o.c⟩]) := by
  obtain ⟨ra, rb, rc⟩ := inv_get L h hi hk
  have k := fun f n hm s hsl x hx => apply_keep L hs hid f n hm s hsl x hx
  refine ⟨?_, ?_, ?_, ?_⟩
  · intro hkind
    simp only [step, hi, hkind, beq_self_eq_true, if_true]
    rw [k "Angle.freeze" 0 (by decide) 0 (by decide) _ ra, k "Angle.freeze" 0 (by decide) 1 (by decide) _ rb,
      k "Angle.freeze" 0 (by decide) 2 (by decide) _ rc]
  · intro hkind
    simp only [step, hi, hkind]
    have : (Kind.fang == Kind.fang) = true := by decide
    simp only [this, if_true]
    rw [k "FrozenAngle.thaw" 0 (by decide) 0 (by decide) _ ra, k "FrozenAngle.thaw" 0 (by decide) 1 (by decide) _ rb,
      k "FrozenAngle.thaw" 0 (by decide) 2 (by decide) _ rc]
  · intro fr
    simp only [step, hi, hk, if_true]
    cases fr
    · simp only [Bool.false_eq_true, if_false]
      rw [k "Angle.__init__" 1 (by decide) 0 (by decide) _ ra, k "Angle.__init__" 1 (by decide) 1 (by decide) _ rb,
        k "Angle.__init__" 1 (by decide) 2 (by decide) _ rc]
    · simp only [if_true]
      rw [k "FrozenAngle.__new__" 1 (by decide) 0 (by decide) _ ra, k "FrozenAngle.__new__" 1 (by decide) 1 (by decide) _ rb,
        k "FrozenAngle.__new__" 1 (by decide) 2 (by decide) _ rc]
  · intro fr
    simp only [step]
    cases fr
    · simp only [Bool.false_eq_true, if_false]
      rw [k "Angle.__init__" 0 (by decide) 0 (by decide) _ ra, k "Angle.__init__" 0 (by decide) 1 (by decide) _ rb,
        k "Angle.__init__" 0 (by decide) 2 (by decide) _ rc]
    · simp only [if_true, Bool.false_eq_true, if_false]
      rw [k "FrozenAngle.__new__" 0 (by decide) 0 (by decide) _ ra, k "FrozenAngle.__new__" 0 (by decide) 1 (by decide) _ rb,
        k "FrozenAngle.__new__" 0 (by decide) 2 (by decide) _ rc]

theorem b64_idem : ∀ x, b64Laws.R x → b64.norm2 x = x := by
  rintro x ⟨b, rfl, hb⟩
  exact norm360_idem b hb

theorem abs_idem (RS : RoundingSystem) : ∀ x, (absLaws RS).R x → (absSys RS).norm2 x = x := by
  rintro x ⟨h0, h⟩
  exact norm2Q_idem RS x h0 h

end C05
