import Srctools.Model.Tok
/-! Helper lemmas for the tokenizer model: `escape_text` followed by `_handle_string`. -/

namespace Tok

/-- Decidable well-formedness of the extracted tables; everything C02 needs from them. -/
def escOK (T : Tables) : Bool :=
  -- every symbol decodes to its own image (symbols are effectively distinct), and no symbol is a
  -- character that would be special when it follows the backslash or stands raw in the output
  T.escapes.all (fun p => T.unescape p.1 == some p.2 && p.1 != '\n' && p.1 != '\r') &&
  -- the characters that end or alter a quoted string are escaped in both modes
  ['"', '\\', '\r'].all (fun c =>
    (T.invSym c).isSome && !T.exclSingle.contains c && !T.exclMulti.contains c) &&
  -- LF is escaped in single-line mode
  (T.invSym '\n').isSome && !T.exclSingle.contains '\n' &&
  -- a quote starts a string (it is not an operator)
  (T.operator '"').isNone

theorem invSym_mem {T : Tables} {c sym : Char} (h : T.invSym c = some sym) :
    (sym, c) ∈ T.escapes := by
  unfold Tables.invSym at h
  cases hf : T.escapes.reverse.find? (·.2 == c) with
  | none => simp [hf] at h
  | some p =>
    simp [hf] at h
    have hm := List.mem_of_find?_eq_some hf
    have hp := List.find?_some hf
    simp at hp
    obtain ⟨a, b⟩ := p
    simp at h hp
    subst h; subst hp
    simpa using hm

structure EscFacts (T : Tables) : Prop where
  dec : ∀ p ∈ T.escapes, T.unescape p.1 = some p.2 ∧ p.1 ≠ '\n' ∧ p.1 ≠ '\r'
  special : ∀ c, (c = '"' ∨ c = '\\' ∨ c = '\r') → ∀ ml, ∃ sym, escChar T ml c = ['\\', sym]
  lf : ∃ sym, escChar T false '\n' = ['\\', sym]
  quoteNoOp : T.operator '"' = none

theorem escFacts {T : Tables} (h : escOK T = true) : EscFacts T := by
  unfold escOK at h
  simp only [Bool.and_eq_true, List.all_eq_true] at h
  obtain ⟨⟨⟨⟨h1, h2⟩, h3⟩, h4⟩, h5⟩ := h
  refine ⟨?_, ?_, ?_, ?_⟩
  · intro p hp
    have := h1 p hp
    simp at this
    exact ⟨this.1.1, this.1.2, this.2⟩
  · intro c hc ml
    have hm : c ∈ ['"', '\\', '\r'] := by
      rcases hc with rfl | rfl | rfl <;> simp
    have := h2 c hm
    simp at this
    obtain ⟨⟨hs, he1⟩, he2⟩ := this
    cases hi : T.invSym c with
    | none => simp [hi] at hs
    | some sym =>
      refine ⟨sym, ?_⟩
      unfold escChar Tables.excl
      cases ml <;> simp [he1, he2, hi]
  · cases hi : T.invSym '\n' with
    | none => simp [hi] at h3
    | some sym =>
      refine ⟨sym, ?_⟩
      simp at h4
      unfold escChar Tables.excl
      simp [h4, hi]
  · simpa using h5

/-- Left-to-right scan: is there a `"` that is not the target of a backslash? This is how any
consumer of the text sees a "raw" quote. -/
def hasRawQuote : List Char → Bool
  | [] => false
  | c :: cs =>
    if c = '\\' then (match cs with | [] => false | _ :: t => hasRawQuote t)
    else (c == '"' || hasRawQuote cs)

theorem handleString_cons (T : Tables) (a : Bool) (c : Char) (cs acc : List Char) (lc : Bool)
    (line : Nat) :
    handleString T a (c :: cs) acc lc line =
      if c = '"' then .ok acc.reverse line cs
      else if c = '\r' then handleString T a cs ('\n' :: acc) true (line + 1)
      else if c = '\n' then
        if lc then handleString T a cs acc false line
        else handleString T a cs ('\n' :: acc) false (line + 1)
      else if c = '\\' ∧ a then
        match cs with
        | [] => .err .noCharToEscape line
        | e :: cs' =>
          if e = '\n' then handleString T a cs' acc false line
          else match T.unescape e with
            | some r => handleString T a cs' (r :: acc) false line
            | none => handleString T a cs' (e :: '\\' :: acc) false line
      else handleString T a cs (c :: acc) false line := by
  rw [handleString.eq_def]
  rfl

theorem hasRawQuote_cons (c : Char) (cs : List Char) :
    hasRawQuote (c :: cs) =
      if c = '\\' then (match cs with | [] => false | _ :: t => hasRawQuote t)
      else (c == '"' || hasRawQuote cs) := by
  rw [hasRawQuote.eq_def]

/-- Shape of the replacement of one character: raw (and then harmless), or a decodable pair. -/
theorem escChar_cases {T : Tables} (F : EscFacts T) (ml : Bool) (c : Char) :
    (escChar T ml c = [c] ∧ c ≠ '"' ∧ c ≠ '\\' ∧ c ≠ '\r' ∧ (c = '\n' → ml = true)) ∨
    (∃ sym, escChar T ml c = ['\\', sym] ∧ T.unescape sym = some c ∧ sym ≠ '\n' ∧ sym ≠ '\r') := by
  by_cases hpair : ∃ sym, escChar T ml c = ['\\', sym]
  · right
    obtain ⟨sym, hs⟩ := hpair
    refine ⟨sym, hs, ?_⟩
    -- the pair comes from invSym
    unfold escChar at hs
    split at hs
    · simp at hs
    · split at hs
      · rename_i s hi
        simp at hs
        subst hs
        have := F.dec _ (invSym_mem hi)
        exact this
      · simp at hs
  · left
    have hraw : escChar T ml c = [c] := by
      unfold escChar at hpair ⊢
      split
      · rfl
      · rename_i hne
        split
        · rename_i s hi
          exact absurd ⟨s, by rw [if_neg hne, hi]⟩ hpair
        · rfl
    refine ⟨hraw, ?_, ?_, ?_, ?_⟩
    · intro hc; exact hpair (F.special c (Or.inl hc) ml)
    · intro hc; exact hpair (F.special c (Or.inr (Or.inl hc)) ml)
    · intro hc; exact hpair (F.special c (Or.inr (Or.inr hc)) ml)
    · intro hc
      cases ml with
      | true => rfl
      | false => subst hc; exact absurd F.lf hpair

/-- One escaped character is read back as that character. -/
theorem handleString_escChar {T : Tables} (F : EscFacts T) (ml : Bool) (c : Char)
    (t acc : List Char) (line : Nat) :
    handleString T true (escChar T ml c ++ t) acc false line
      = handleString T true t (c :: acc) false (line + (escChar T ml c).count '\n') := by
  rcases escChar_cases F ml c with ⟨hr, h1, h2, h3, h4⟩ | ⟨sym, hs, hu, hn, _⟩
  · rw [hr]
    by_cases hlf : c = '\n'
    · subst hlf
      simp [handleString_cons]
    · simp [handleString_cons, h1, h2, h3, hlf]
  · rw [hs]
    have hcnt : List.count '\n' ['\\', sym] = 0 := by
      simp [hn]
    simp only [List.cons_append, List.nil_append, hcnt, Nat.add_zero]
    rw [handleString_cons]
    simp [hn, hu]

/-- `_handle_string` inverts `escape_text` on every string, in both modes, whatever follows. -/
theorem handleString_escapeText {T : Tables} (F : EscFacts T) (ml : Bool) (s rest acc : List Char)
    (line : Nat) :
    handleString T true (escapeText T ml s ++ '"' :: rest) acc false line
      = .ok (acc.reverse ++ s) (line + (escapeText T ml s).count '\n') rest := by
  induction s generalizing acc line with
  | nil => simp [escapeText, handleString_cons]
  | cons c cs ih =>
    simp only [escapeText, List.append_assoc]
    rw [handleString_escChar F, ih]
    simp [List.count_append, Nat.add_assoc]

theorem hasRawQuote_escChar {T : Tables} (F : EscFacts T) (ml : Bool) (c : Char) (t : List Char) :
    hasRawQuote (escChar T ml c ++ t) = hasRawQuote t := by
  rcases escChar_cases F ml c with ⟨hr, h1, h2, _, _⟩ | ⟨sym, hs, _, _, _⟩
  · rw [hr]
    simp [hasRawQuote_cons, h1, h2]
  · rw [hs]; simp [hasRawQuote_cons]

theorem mem_escChar {T : Tables} (F : EscFacts T) (ml : Bool) (c x : Char)
    (hx : x ∈ escChar T ml c) : x = c ∧ c ≠ '\r' ∧ (c = '\n' → ml = true) ∨ x = '\\' ∨
      (x ≠ '\n' ∧ x ≠ '\r') := by
  rcases escChar_cases F ml c with ⟨hr, _, _, h3, h4⟩ | ⟨sym, hs, _, hn, hr'⟩
  · rw [hr] at hx; simp at hx; left; exact ⟨hx, h3, h4⟩
  · rw [hs] at hx; simp at hx
    rcases hx with rfl | rfl
    · right; left; rfl
    · right; right; exact ⟨hn, hr'⟩

end Tok
