import Srctools.Proofs.C16KVSpec
/-!
# C16 — long strings in BOTH escape modes: splitting is transparent to the reader

`_write_longstring` cuts the escaped text `E = _fgd_escape(extended, text)` only where an even number of
backslashes precedes the cut (`splitPos_spec`), i.e. never between a backslash and the character it
escapes (`insidePair`).  For any such cut the tokenizer's reading distributes over the pieces
(`decodeUnits_append`), so the concatenation of what is read from the quoted pieces equals what is read
from the unsplit `"E"` (`Reads T E (decodeUnits T E)`).  For `extended=True` that is the original text;
for `extended=False` it is the documented lossy image (`"` → `''`, only `\n` escaped).
-/
namespace C16.KV
open Tok C16

/-! ## `insidePair` is the parity of the trailing backslashes -/

theorem insidePair_cons_bs (x : Char) (t : Str) : insidePair ('\\' :: x :: t) = insidePair t := by
  rw [insidePair]

theorem insidePair_cons_other {c : Char} (hc : c ≠ '\\') (t : Str) : insidePair (c :: t) = insidePair t := by
  rw [insidePair.eq_def]
  split
  · rename_i h; cases h
  · rename_i h; cases h; exact absurd rfl hc
  · rename_i h; cases h; exact absurd rfl hc
  · rename_i h; cases h; rfl

theorem insidePair_parity : ∀ (n : Nat) (l : Str), l.length ≤ n →
    (insidePair l = true ↔ trailingBs l % 2 = 1) := by
  intro n
  induction n with
  | zero =>
    intro l hl
    have : l = [] := List.length_eq_zero_iff.mp (by omega)
    subst this; simp [insidePair, trailingBs_nil]
  | succ n ih =>
    intro l hl
    match l with
    | [] => simp [insidePair, trailingBs_nil]
    | [c] =>
      by_cases hc : c = '\\'
      · subst hc; simp [insidePair, trailingBs_single]
      · rw [insidePair_cons_other hc, trailingBs_single]; simp [insidePair, hc]
    | c :: x :: t =>
      by_cases hc : c = '\\'
      · subst hc
        rw [insidePair_cons_bs]
        have hp : trailingBs ['\\', x] % 2 = 0 := by
          rw [trailingBs_pair]; by_cases hx : x = '\\' <;> simp [hx]
        have := trailingBs_prefix_parity ['\\', x] hp t
        simp only [List.cons_append, List.nil_append] at this
        rw [this]
        exact ih t (by simp at hl; omega)
      · rw [insidePair_cons_other hc]
        have hp : trailingBs [c] % 2 = 0 := by rw [trailingBs_single]; simp [hc]
        have := trailingBs_prefix_parity [c] hp (x :: t)
        simp only [List.cons_append, List.nil_append] at this
        rw [this]
        exact ih (x :: t) (by simp at hl ⊢; omega)

theorem insidePair_false_of_even {l : Str} (h : trailingBs l % 2 = 0) : insidePair l = false := by
  cases hi : insidePair l with
  | false => rfl
  | true => have := (insidePair_parity l.length l (Nat.le_refl _)).mp hi; omega

/-! ## reading distributes over a cut at a unit boundary -/

theorem decodeUnits_cons_other (T : Tables) {c : Char} (hc : c ≠ '\\') (r : Str) :
    decodeUnits T (c :: r) = (if c = '\r' then '\n' else c) :: decodeUnits T r := by
  rw [decodeUnits.eq_def]
  split
  · rename_i h; cases h
  · rename_i h; cases h; exact absurd rfl hc
  · rename_i h; cases h; rfl

theorem decodeUnits_cons_bs (T : Tables) (e : Char) (t : Str) :
    decodeUnits T ('\\' :: e :: t) = (if e = '\n' then [] else match T.unescape e with
      | some r => [r]
      | none => ['\\', e]) ++ decodeUnits T t := by
  conv => lhs; rw [decodeUnits]
  by_cases h : e = '\n'
  · simp [h]
  · simp only [h, if_false]
    cases T.unescape e <;> rfl

theorem units_append (T : Tables) : ∀ (n : Nat) (A : Str), A.length ≤ n → insidePair A = false →
    ∀ B, decodeUnits T (A ++ B) = decodeUnits T A ++ decodeUnits T B ∧ insidePair (A ++ B) = insidePair B := by
  intro n
  induction n with
  | zero =>
    intro A hA _ B
    have : A = [] := List.length_eq_zero_iff.mp (by omega)
    subst this; simp [decodeUnits]
  | succ n ih =>
    intro A hA hin B
    match A with
    | [] => simp [decodeUnits]
    | c :: r =>
      by_cases hc : c = '\\'
      · subst hc
        match r with
        | [] => simp [insidePair] at hin
        | x :: t =>
          rw [insidePair_cons_bs] at hin
          obtain ⟨h1, h2⟩ := ih t (by simp at hA; omega) hin B
          constructor
          · simp only [List.cons_append]
            rw [decodeUnits_cons_bs, decodeUnits_cons_bs, h1]; simp [List.append_assoc]
          · simp only [List.cons_append]; rw [insidePair_cons_bs]; exact h2
      · rw [insidePair_cons_other hc] at hin
        obtain ⟨h1, h2⟩ := ih r (by simp at hA; omega) hin B
        constructor
        · simp only [List.cons_append]
          rw [decodeUnits_cons_other T hc, decodeUnits_cons_other T hc, h1]; simp
        · simp only [List.cons_append]
          rw [insidePair_cons_other hc]; exact h2

theorem decodeUnits_append (T : Tables) {A : Str} (h : insidePair A = false) (B : Str) :
    decodeUnits T (A ++ B) = decodeUnits T A ++ decodeUnits T B :=
  (units_append T A.length A (Nat.le_refl _) h B).1

theorem insidePair_append {A : Str} (h : insidePair A = false) (B : Str) :
    insidePair (A ++ B) = insidePair B :=
  (units_append ⟨[], [], [], [], []⟩ A.length A (Nat.le_refl _) h B).2

/-! ## `_handle_string` reads clean text as `decodeUnits` -/

theorem handleString_clean (T : Tables) : ∀ (n : Nat) (E : Str), E.length ≤ n → '"' ∉ E → '\n' ∉ E →
    insidePair E = false → ∀ (rest acc : Str) (lc : Bool) (line : Nat),
      ∃ line', handleString T true (E ++ '"' :: rest) acc lc line
        = .ok (acc.reverse ++ decodeUnits T E) line' rest := by
  intro n
  induction n with
  | zero =>
    intro E hE _ _ _ rest acc lc line
    have : E = [] := List.length_eq_zero_iff.mp (by omega)
    subst this
    exact ⟨line, by simp [handleString_cons, decodeUnits]⟩
  | succ n ih =>
    intro E hE hq hn hin rest acc lc line
    match E with
    | [] => exact ⟨line, by simp [handleString_cons, decodeUnits]⟩
    | c :: r =>
      have hq' : '"' ∉ r := by intro h; exact hq (by simp [h])
      have hn' : '\n' ∉ r := by intro h; exact hn (by simp [h])
      have hcq : c ≠ '"' := by intro h; subst h; simp at hq
      have hcn : c ≠ '\n' := by intro h; subst h; simp at hn
      by_cases hc : c = '\\'
      · subst hc
        match r with
        | [] => simp [insidePair] at hin
        | x :: t =>
          rw [insidePair_cons_bs] at hin
          have hq'' : '"' ∉ t := by intro h; exact hq' (by simp [h])
          have hn'' : '\n' ∉ t := by intro h; exact hn' (by simp [h])
          have hxn : x ≠ '\n' := by intro h; subst h; simp at hn'
          simp only [List.cons_append]
          rw [handleString_cons]
          have e1 : ('\\' : Char) ≠ '"' := by decide
          have e2 : ('\\' : Char) ≠ '\r' := by decide
          have e3 : ('\\' : Char) ≠ '\n' := by decide
          simp only [e1, e2, e3, if_false, and_self, if_true, hxn]
          rw [decodeUnits_cons_bs]
          simp only [hxn, if_false]
          cases hu : T.unescape x with
          | some r' =>
            obtain ⟨l', h'⟩ := ih t (by simp at hE; omega) hq'' hn'' hin rest (r' :: acc) false line
            exact ⟨l', by simp only []; rw [h']; simp⟩
          | none =>
            obtain ⟨l', h'⟩ := ih t (by simp at hE; omega) hq'' hn'' hin rest (x :: '\\' :: acc) false line
            exact ⟨l', by simp only []; rw [h']; simp⟩
      · rw [insidePair_cons_other hc] at hin
        simp only [List.cons_append]
        rw [handleString_cons, decodeUnits_cons_other T hc]
        by_cases hcr : c = '\r'
        · subst hcr
          obtain ⟨l', h'⟩ := ih r (by simp at hE; omega) hq' hn' hin rest ('\n' :: acc) true (line + 1)
          exact ⟨l', by simp [h']⟩
        · obtain ⟨l', h'⟩ := ih r (by simp at hE; omega) hq' hn' hin rest (c :: acc) false line
          exact ⟨l', by simp [hcq, hcr, hcn, hc, h']⟩

/-- Clean text (no raw `"`, no raw line feed, not ending inside an escape pair) is read as `decodeUnits`. -/
theorem reads_clean (T : Tables) {E : Str} (hq : '"' ∉ E) (hn : '\n' ∉ E) (hin : insidePair E = false) :
    Reads T E (decodeUnits T E) := by
  intro rest line
  obtain ⟨l', h⟩ := handleString_clean T E.length E (Nat.le_refl _) hq hn hin rest [] false line
  exact ⟨l', by simpa using h⟩

/-! ## the sections of ANY text are cut at unit boundaries -/

theorem sections_units (T : Tables) (cfg : LongCfg) (hc : cfgOK cfg = true) :
    ∀ (fuel : Nat) (E : Str) (first : Bool), E.length < fuel → insidePair E = false →
      (sections cfg fuel E first).flatten = E ∧
      (∀ sec ∈ sections cfg fuel E first, insidePair sec = false ∧ sec.length ≤ cfg.limit) ∧
      ((sections cfg fuel E first).map (decodeUnits T)).flatten = decodeUnits T E ∧
      (sections cfg fuel E first = [] → E = [] ∧ ¬ (first = true ∧ cfg.emptyQuotes = true)) := by
  have hc' := hc
  unfold cfgOK at hc'
  simp only [Bool.and_eq_true, decide_eq_true_eq] at hc'
  obtain ⟨⟨hb, hl⟩, hsm⟩ := hc'
  intro fuel
  induction fuel with
  | zero => intro E first h; omega
  | succ fuel ih =>
    intro E first hlen hin
    rw [sections]
    by_cases hbig : E.length > cfg.limit
    · simp only [hbig, if_true]
      obtain ⟨hpos, hle, hpar⟩ := splitPos_spec cfg hb hl hsm E hbig
      have hA : insidePair (E.take (splitPos cfg E)) = false := insidePair_false_of_even hpar
      have hsplit : E.take (splitPos cfg E) ++ E.drop (splitPos cfg E) = E := List.take_append_drop _ _
      have hB : insidePair (E.drop (splitPos cfg E)) = false := by
        have := insidePair_append hA (E.drop (splitPos cfg E))
        rw [hsplit] at this; rw [← this]; exact hin
      obtain ⟨h1, h2, h3, _⟩ := ih (E.drop (splitPos cfg E)) false (by rw [List.length_drop]; omega) hB
      refine ⟨by simp [h1, hsplit], ?_, ?_, by simp⟩
      · intro sec hmem
        simp only [List.mem_cons] at hmem
        rcases hmem with rfl | hmem
        · exact ⟨hA, by rw [List.length_take]; omega⟩
        · exact h2 sec hmem
      · simp only [List.map_cons, List.flatten_cons, h3]
        rw [← decodeUnits_append T hA, hsplit]
    · simp only [hbig, if_false]
      by_cases hne : E ≠ [] ∨ (first = true ∧ cfg.emptyQuotes = true)
      · simp only [hne, if_true]
        refine ⟨by simp, ?_, by simp, by simp⟩
        intro sec hmem
        simp only [List.mem_singleton] at hmem
        subst hmem
        exact ⟨hin, by omega⟩
      · simp only [hne, if_false]
        have hE : E = [] := by
          cases E with
          | nil => rfl
          | cons a b => exact absurd (Or.inl (by simp)) hne
        subst hE
        refine ⟨rfl, by simp, by simp [decodeUnits], fun _ => ⟨rfl, fun h => hne (Or.inr h)⟩⟩

/-! ## `extended=False` -/

theorem plainEscape_clean : ∀ s : Str, '"' ∉ plainEscape s ∧ '\n' ∉ plainEscape s := by
  intro s
  induction s with
  | nil => simp [plainEscape]
  | cons c cs ih =>
    simp only [plainEscape, List.mem_append, not_or]
    refine ⟨⟨?_, ih.1⟩, ⟨?_, ih.2⟩⟩
    · unfold plainEscChar
      by_cases h1 : c = '\n'
      · simp [h1]
      · by_cases h2 : c = '"'
        · simp [h2]
        · simp [h1, h2]; exact fun h => h2 h.symm
    · unfold plainEscChar
      by_cases h1 : c = '\n'
      · simp [h1]
      · by_cases h2 : c = '"'
        · simp [h2]
        · simp [h1, h2]; exact fun h => h1 h.symm

theorem mem_of_mem_section {secs : List Str} {E : Str} (hflat : secs.flatten = E) {sec : Str}
    (hs : sec ∈ secs) {x : Char} (hx : x ∈ sec) : x ∈ E := by
  rw [← hflat]; exact List.mem_flatten.mpr ⟨sec, hs, hx⟩

/-- Text whose plain escape does not end in a dangling backslash. -/
def plainOK (s : Str) : Bool := !insidePair (plainEscape s)

/-- **`extended=False`.** Every quoted section is read by the tokenizer, the list of sections is not
empty, and the concatenation of what is read is what is read from the unsplit `"_fgd_escape(text)"`. -/
theorem ls_plain (T : Tables) (cfg : LongCfg) (hc : cfgOK cfg = true) (he : cfg.emptyQuotes = true)
    (s : Str) (hs : plainOK s = true) :
    longSections cfg T false s ≠ [] ∧
    (∀ sec ∈ longSections cfg T false s, Reads T sec (decodeUnits T sec) ∧ sec.length ≤ cfg.limit) ∧
    ((longSections cfg T false s).map (decodeUnits T)).flatten = decodeUnits T (plainEscape s) ∧
    Reads T (plainEscape s) (decodeUnits T (plainEscape s)) := by
  have hin : insidePair (plainEscape s) = false := by simpa [plainOK] using hs
  have hcl := plainEscape_clean s
  obtain ⟨h1, h2, h3, h4⟩ := sections_units T cfg hc ((plainEscape s).length + 1) (plainEscape s) true
    (by omega) hin
  have hls : longSections cfg T false s = sections cfg ((plainEscape s).length + 1) (plainEscape s) true := by
    simp [longSections, fgdEscape]
  rw [hls]
  refine ⟨?_, ?_, h3, reads_clean T hcl.1 hcl.2 hin⟩
  · intro h0
    exact (h4 h0).2 ⟨rfl, he⟩
  · intro sec hsec
    refine ⟨reads_clean T ?_ ?_ (h2 sec hsec).1, (h2 sec hsec).2⟩
    · intro hx; exact hcl.1 (mem_of_mem_section h1 hsec hx)
    · intro hx; exact hcl.2 (mem_of_mem_section h1 hsec hx)

/-- `text.replace('"', "''")` -/
def plainQuote : Str → Str
  | [] => []
  | c :: cs => (if c = '"' then ['\'', '\''] else [c]) ++ plainQuote cs

/-- For text without backslash and CR the lossy image is just the quote replacement. -/
theorem plain_simple (T : Tables) (hn : T.unescape 'n' = some '\n') (s : Str)
    (hb : '\\' ∉ s) (hr : '\r' ∉ s) :
    decodeUnits T (plainEscape s) = plainQuote s ∧ insidePair (plainEscape s) = false := by
  induction s with
  | nil => simp [plainEscape, plainQuote, decodeUnits, insidePair]
  | cons c cs ih =>
    have hcb : c ≠ '\\' := by intro h; subst h; simp at hb
    have hcr : c ≠ '\r' := by intro h; subst h; simp at hr
    obtain ⟨i1, i2⟩ := ih (by intro h; exact hb (by simp [h])) (by intro h; exact hr (by simp [h]))
    have key : decodeUnits T (plainEscChar c) = (if c = '"' then ['\'', '\''] else [c]) ∧
        insidePair (plainEscChar c) = false := by
      unfold plainEscChar
      by_cases h1 : c = '\n'
      · subst h1
        refine ⟨?_, by rw [if_pos rfl, insidePair_cons_bs]; rfl⟩
        rw [if_pos rfl, decodeUnits_cons_bs]
        have e : ('n' : Char) ≠ '\n' := by decide
        have e2 : ('\n' : Char) ≠ '"' := by decide
        simp [e, hn, decodeUnits, e2]
      · by_cases h2 : c = '"'
        · subst h2
          have e : ('\'' : Char) ≠ '\\' := by decide
          have e3 : ('\'' : Char) ≠ '\r' := by decide
          refine ⟨?_, by simp only [h1, if_false, if_true]; rw [insidePair_cons_other e, insidePair_cons_other e]; rfl⟩
          simp only [h1, if_false, if_true]
          rw [decodeUnits_cons_other T e, decodeUnits_cons_other T e]
          simp [decodeUnits, e3]
        · simp only [h1, h2, if_false]
          exact ⟨by rw [decodeUnits_cons_other T hcb]; simp [decodeUnits, hcr],
                 by rw [insidePair_cons_other hcb]; rfl⟩
    simp only [plainEscape, plainQuote]
    exact ⟨by rw [decodeUnits_append T key.2, key.1, i1], by rw [insidePair_append key.2]; exact i2⟩

/-! ## `extended=True` -/

theorem decodeUnits_escChar {T : Tables} (F : EscFacts T) (ml : Bool) (c : Char) :
    decodeUnits T (escChar T ml c) = [c] ∧ insidePair (escChar T ml c) = false := by
  rcases escChar_cases F ml c with ⟨hr, _, h2, h3, _⟩ | ⟨sym, hs, hu, hn, _⟩
  · rw [hr]
    exact ⟨by rw [decodeUnits_cons_other T h2]; simp [decodeUnits, h3], by rw [insidePair_cons_other h2]; rfl⟩
  · rw [hs]
    refine ⟨?_, by rw [insidePair_cons_bs]; rfl⟩
    rw [decodeUnits_cons_bs]
    simp [hn, hu, decodeUnits]

theorem decodeUnits_escapeText {T : Tables} (F : EscFacts T) (ml : Bool) (s : Str) :
    decodeUnits T (escapeText T ml s) = s ∧ insidePair (escapeText T ml s) = false := by
  induction s with
  | nil => simp [escapeText, decodeUnits, insidePair]
  | cons c cs ih =>
    obtain ⟨h1, h2⟩ := decodeUnits_escChar F ml c
    simp only [escapeText]
    exact ⟨by rw [decodeUnits_append T h2, h1, ih.1]; rfl, by rw [insidePair_append h2]; exact ih.2⟩

theorem reads_escape {T : Tables} (F : EscFacts T) (ml : Bool) (s : Str) :
    Reads T (escapeText T ml s) s := by
  intro rest line
  refine ⟨line + (escapeText T ml s).count '\n', ?_⟩
  rw [handleString_escapeText F]; simp

/-- **`extended=True`.** Every quoted section is read by the tokenizer, the list of sections is not
empty, and the concatenation of what is read is the original text. -/
theorem ls_ext (T : Tables) (hT : fgdTablesOK T = true) (cfg : LongCfg) (hc : cfgOK cfg = true)
    (he : cfg.emptyQuotes = true) (s : Str) :
    longSections cfg T true s ≠ [] ∧
    (∀ sec ∈ longSections cfg T true s, Reads T sec (decodeUnits T sec) ∧ sec.length ≤ cfg.limit) ∧
    ((longSections cfg T true s).map (decodeUnits T)).flatten = s := by
  have F := escFacts (tokFacts hT).esc
  obtain ⟨ps, hflat, hne, hlim, hls, _⟩ := writeLongString_pieces F cfg hc [] s (Or.inr he)
  rw [hls]
  refine ⟨by simpa using hne, ?_, ?_⟩
  · intro sec hsec
    obtain ⟨p, hp, rfl⟩ := List.mem_map.mp hsec
    rw [(decodeUnits_escapeText F false p).1]
    exact ⟨reads_escape F false p, hlim p hp⟩
  · rw [List.map_map]
    have : (decodeUnits T ∘ escapeText T false) = id ∘ id := by
      funext p; exact (decodeUnits_escapeText F false p).1
    rw [this]; simpa using hflat

end C16.KV
