import Srctools.Model.C07
/-!
# C07 — invariant, validity of histories and the preservation lemmas

`Coherent` is the property itself (indexes = exactly the entities of the map under their folded
class / name); `Inv` adds what is needed to make it inductive.  All preservation lemmas are about
the repaired source (`Fix.all`).
-/
namespace C07

/-- What the theorems assume of `str.casefold`. -/
structure FoldOK (fold : Name → Name) : Prop where
  idem : ∀ s, fold (fold s) = fold s
  cls : fold kClass = kClass
  tgt : fold kTarget = kTarget
  world : fold kWorld = kWorld
  nil : fold [] = []

/-- **The property**: `by_class` / `by_target` relate a key to an entity iff the entity is in the map
(in `entities`, or the worldspawn) and the key is its case-folded class, resp. its case-folded name
(`None` when it has no name). -/
def Coherent (fold : Name → Name) (s : St) : Prop :=
  (∀ k e, (k, e) ∈ s.byClass ↔ (s.indexed e ∧ fold (s.cls fold e) = k)) ∧
  (∀ k e, (k, e) ∈ s.byTarget ↔ (s.indexed e ∧ nameKey fold (s.nm fold e) = k))

def KeysOK (fold : Name → Name) (ks : KVs) : Prop := (ks.map (fun p => fold p.1)).Nodup

structure Inv (fold : Name → Name) (s : St) : Prop where
  coh : Coherent fold s
  nodup : s.ents.Nodup
  spawnOut : s.spawn ∉ s.ents
  spawnCls : fold (s.cls fold s.spawn) = kWorld
  keysOK : ∀ e, KeysOK fold (s.keysOf e)
  spawnKnown : s.known s.spawn
  entsKnown : ∀ e ∈ s.ents, s.known e

/-! ## keyvalue dict lemmas -/
section keys
variable {fold : Name → Name}

theorem lookupF_putKey (ks : KVs) (key val kf : Name) :
    lookupF fold (putKey fold ks key val) kf = if kf = fold key then val else lookupF fold ks kf := by
  induction ks with
  | nil => simp only [putKey, lookupF]; split <;> simp_all [eq_comm]
  | cons p t ih =>
    obtain ⟨k, v⟩ := p
    simp only [putKey]
    by_cases h : fold k = fold key
    · simp only [h, if_true, lookupF]
      by_cases h2 : fold key = kf
      · simp [h2]
      · have : ¬ kf = fold key := fun x => h2 x.symm
        simp [h2, this]
    · simp only [h, if_false, lookupF, ih]
      by_cases h2 : fold k = kf
      · have : ¬ kf = fold key := fun x => h (h2.trans x)
        simp [h2, this]
      · simp [h2]

theorem findKey_getD (ks : KVs) (kf : Name) :
    ((findKey fold ks kf).map (·.2)).getD [] = lookupF fold ks kf := by
  induction ks with
  | nil => simp [findKey, lookupF]
  | cons p t ih =>
    obtain ⟨k, v⟩ := p
    simp only [findKey, lookupF]
    split <;> simp_all

theorem findKey_some {ks : KVs} {kf : Name} {p : Name × Name} (h : findKey fold ks kf = some p) :
    fold p.1 = kf := by
  induction ks with
  | nil => simp [findKey] at h
  | cons q t ih =>
    obtain ⟨k, v⟩ := q
    simp only [findKey] at h
    split at h
    · cases h; assumption
    · exact ih h

theorem fkeys_putKey (ks : KVs) (key val : Name) :
    (putKey fold ks key val).map (fun p => fold p.1) =
      if fold key ∈ ks.map (fun p => fold p.1) then ks.map (fun p => fold p.1)
      else ks.map (fun p => fold p.1) ++ [fold key] := by
  induction ks with
  | nil => simp [putKey]
  | cons p t ih =>
    obtain ⟨k, v⟩ := p
    simp only [putKey]
    by_cases h : fold k = fold key
    · simp [h]
    · have h' : ¬ fold key = fold k := fun x => h x.symm
      simp only [h, if_false, List.map_cons, ih, List.mem_cons, h', false_or]
      split <;> simp

theorem KeysOK_putKey {ks : KVs} (h : KeysOK fold ks) (key val : Name) :
    KeysOK fold (putKey fold ks key val) := by
  unfold KeysOK at *
  rw [fkeys_putKey]
  split
  · exact h
  · rename_i hn
    exact List.nodup_append.mpr ⟨h, by simp, by
      intro a ha b hb
      simp only [List.mem_singleton] at hb
      subst hb
      intro hab; subst hab; exact hn ha⟩

theorem fkeys_eraseFirst (ks : KVs) (kf : Name) :
    (eraseFirst fold ks kf).map (fun p => fold p.1) = (ks.map (fun p => fold p.1)).erase kf := by
  induction ks with
  | nil => simp [eraseFirst]
  | cons p t ih =>
    obtain ⟨k, v⟩ := p
    simp only [eraseFirst, List.map_cons]
    by_cases h : fold k = kf
    · simp [h]
    · simp only [h, if_false, List.map_cons, ih]
      rw [List.erase_cons_tail (by simpa using h)]

theorem KeysOK_eraseFirst {ks : KVs} (h : KeysOK fold ks) (kf : Name) :
    KeysOK fold (eraseFirst fold ks kf) := by
  unfold KeysOK at *
  rw [fkeys_eraseFirst]
  exact h.erase kf

theorem lookupF_eq_nil_of_not_mem {ks : KVs} {kf : Name} (h : kf ∉ ks.map (fun p => fold p.1)) :
    lookupF fold ks kf = [] := by
  induction ks with
  | nil => simp [lookupF]
  | cons p t ih =>
    obtain ⟨k, v⟩ := p
    simp only [List.map_cons, List.mem_cons, not_or] at h
    have h1 : ¬ fold k = kf := fun x => h.1 x.symm
    simp only [lookupF, h1, if_false]
    exact ih h.2

theorem lookupF_eraseFirst {ks : KVs} (h : KeysOK fold ks) (kf kf2 : Name) :
    lookupF fold (eraseFirst fold ks kf) kf2 = if kf2 = kf then [] else lookupF fold ks kf2 := by
  induction ks with
  | nil => simp [eraseFirst, lookupF]
  | cons p t ih =>
    obtain ⟨k, v⟩ := p
    unfold KeysOK at h
    simp only [List.map_cons, List.nodup_cons] at h
    simp only [eraseFirst]
    by_cases h1 : fold k = kf
    · simp only [h1, if_true, lookupF]
      by_cases h2 : kf2 = kf
      · subst h2; subst h1
        simp only [if_true]
        exact lookupF_eq_nil_of_not_mem h.1
      · have : ¬ kf = kf2 := fun x => h2 x.symm
        simp [h2, this]
    · simp only [h1, if_false, lookupF, ih h.2]
      by_cases h2 : fold k = kf2
      · have : ¬ kf2 = kf := fun x => h1 (h2.trans x)
        simp [h2, this]
      · simp [h2]

theorem KeysOK_nil : KeysOK fold [] := by simp [KeysOK]
theorem KeysOK_single (k v : Name) : KeysOK fold [(k, v)] := by simp [KeysOK]

end keys

/-! ## index lemmas -/
section idx
variable {κ : Type} [DecidableEq κ]

theorem mem_idxAdd {ix : List (κ × Id)} {k : κ} {e : Id} {p : κ × Id} :
    p ∈ idxAdd ix k e ↔ p ∈ ix ∨ p = (k, e) := by
  unfold idxAdd
  split
  · constructor
    · exact Or.inl
    · rintro (h | h)
      · exact h
      · subst h; assumption
  · simp

theorem mem_idxDel {ix : List (κ × Id)} {k : κ} {e : Id} {p : κ × Id} :
    p ∈ idxDel ix k e ↔ p ∈ ix ∧ p ≠ (k, e) := by
  simp [idxDel]

theorem mem_idxGet {ix : List (κ × Id)} {k : κ} {e : Id} :
    e ∈ idxGet ix k ↔ (k, e) ∈ ix := by
  simp only [idxGet, List.mem_filterMap]
  constructor
  · rintro ⟨⟨k', e'⟩, hm, h⟩
    simp only at h
    split at h
    · rename_i hk; subst hk; cases h; exact hm
    · cases h
  · intro h
    exact ⟨(k, e), h, by simp⟩

end idx

/-! ## state lemmas -/
theorem keysOf_withKeys {s : St} {e : Id} (h : s.known e) (ks : KVs) (e' : Id) :
    (s.withKeys e ks).keysOf e' = if e' = e then ks else s.keysOf e' := by
  unfold St.known at h
  simp only [St.keysOf, St.withKeys, List.getElem?_set]
  by_cases h1 : e = e'
  · subst h1; simp [h]
  · have : ¬ e' = e := fun x => h1 x.symm
    simp [h1, this]

@[simp] theorem withKeys_ents (s : St) (e : Id) (ks : KVs) : (s.withKeys e ks).ents = s.ents := rfl
@[simp] theorem withKeys_spawn (s : St) (e : Id) (ks : KVs) : (s.withKeys e ks).spawn = s.spawn := rfl
@[simp] theorem withKeys_byClass (s : St) (e : Id) (ks : KVs) : (s.withKeys e ks).byClass = s.byClass := rfl
@[simp] theorem withKeys_byTarget (s : St) (e : Id) (ks : KVs) : (s.withKeys e ks).byTarget = s.byTarget := rfl
@[simp] theorem withKeys_len (s : St) (e : Id) (ks : KVs) : (s.withKeys e ks).objs.length = s.objs.length := by
  simp [St.withKeys]

end C07

namespace C07
variable {fold : Name → Name}

theorem cls_eq_lookup (F : FoldOK fold) (s : St) (e : Id) : s.cls fold e = lookupF fold (s.keysOf e) kClass := by
  simp [St.cls, getVal, F.cls]
theorem nm_eq_lookup (F : FoldOK fold) (s : St) (e : Id) : s.nm fold e = lookupF fold (s.keysOf e) kTarget := by
  simp [St.nm, getVal, F.tgt]

theorem kClass_ne_kTarget : kClass ≠ kTarget := by decide

/-- Generic preservation: only entity `e` changed its keyvalues; every index lost all pairs of `e`
and got back exactly the right one when `e` is in the map. -/
theorem inv_rekey {s s' : St} {e : Id} (I : Inv fold s)
    (hents : s'.ents = s.ents) (hspawn : s'.spawn = s.spawn) (hlen : s'.objs.length = s.objs.length)
    (hkeys : ∀ e', e' ≠ e → s'.keysOf e' = s.keysOf e')
    (hok : KeysOK fold (s'.keysOf e))
    (hsp : e = s.spawn → fold (s'.cls fold e) = kWorld)
    (hbc : ∀ p, p ∈ s'.byClass ↔ (p ∈ s.byClass ∧ p.2 ≠ e) ∨ (s.indexed e ∧ p = (fold (s'.cls fold e), e)))
    (hbt : ∀ p, p ∈ s'.byTarget ↔ (p ∈ s.byTarget ∧ p.2 ≠ e) ∨ (s.indexed e ∧ p = (nameKey fold (s'.nm fold e), e))) :
    Inv fold s' := by
  have hidx : ∀ x, s'.indexed x ↔ s.indexed x := by intro x; simp [St.indexed, hents, hspawn]
  have hcls : ∀ e', e' ≠ e → s'.cls fold e' = s.cls fold e' := by
    intro e' h; simp [St.cls, hkeys e' h]
  have hnm : ∀ e', e' ≠ e → s'.nm fold e' = s.nm fold e' := by
    intro e' h; simp [St.nm, hkeys e' h]
  refine ⟨⟨?_, ?_⟩, ?_, ?_, ?_, ?_, ?_, ?_⟩
  · intro k e'
    rw [hbc, hidx]
    by_cases h : e' = e
    · subst h; simp [eq_comm]
    · have := I.coh.1 k e'
      simp only [this, hcls e' h]
      constructor
      · rintro (⟨h1, _⟩ | ⟨_, h2⟩)
        · exact h1
        · simp at h2; exact absurd h2.2 h
      · intro h1; exact Or.inl ⟨h1, h⟩
  · intro k e'
    rw [hbt, hidx]
    by_cases h : e' = e
    · subst h; simp [eq_comm]
    · have := I.coh.2 k e'
      simp only [this, hnm e' h]
      constructor
      · rintro (⟨h1, _⟩ | ⟨_, h2⟩)
        · exact h1
        · simp at h2; exact absurd h2.2 h
      · intro h1; exact Or.inl ⟨h1, h⟩
  · rw [hents]; exact I.nodup
  · rw [hents, hspawn]; exact I.spawnOut
  · rw [hspawn]
    by_cases h : s.spawn = e
    · rw [h]; exact hsp h.symm
    · rw [hcls _ h]; exact I.spawnCls
  · intro e'
    by_cases h : e' = e
    · subst h; exact hok
    · rw [hkeys e' h]; exact I.keysOK e'
  · simp only [St.known, hspawn, hlen]; exact I.spawnKnown
  · intro e' h; rw [hents] at h; simp only [St.known, hlen]; exact I.entsKnown e' h

end C07

namespace C07
variable {fold : Name → Name}

section char
variable {κ : Type} [DecidableEq κ]

theorem del_char {ix : List (κ × Id)} {e : Id} {kOld : κ} (h : ∀ k, (k, e) ∈ ix → k = kOld)
    (p : κ × Id) : p ∈ idxDel ix kOld e ↔ p ∈ ix ∧ p.2 ≠ e := by
  obtain ⟨k, x⟩ := p
  rw [mem_idxDel]
  constructor
  · rintro ⟨h1, h2⟩
    refine ⟨h1, ?_⟩
    intro hx; simp only at hx; subst hx
    exact h2 (by rw [h k h1])
  · rintro ⟨h1, h2⟩
    exact ⟨h1, by intro hx; cases hx; exact h2 rfl⟩

theorem same_char {ix : List (κ × Id)} {e : Id} {kOld : κ} {P : Prop}
    (h : ∀ k, (k, e) ∈ ix ↔ P ∧ kOld = k) (p : κ × Id) :
    p ∈ ix ↔ (p ∈ ix ∧ p.2 ≠ e) ∨ (P ∧ p = (kOld, e)) := by
  obtain ⟨k, x⟩ := p
  constructor
  · intro h1
    by_cases hx : x = e
    · subst hx
      have := (h k).mp h1
      exact Or.inr ⟨this.1, by rw [this.2]⟩
    · exact Or.inl ⟨h1, hx⟩
  · rintro (⟨h1, _⟩ | ⟨h1, h2⟩)
    · exact h1
    · cases h2; exact (h kOld).mpr ⟨h1, rfl⟩

end char

theorem cohC_unique {s : St} (C : Coherent fold s) (e : Id) :
    ∀ k, (k, e) ∈ s.byClass → k = fold (s.cls fold e) := fun k h => ((C.1 k e).mp h).2.symm
theorem cohT_unique {s : St} (C : Coherent fold s) (e : Id) :
    ∀ k, (k, e) ∈ s.byTarget → k = nameKey fold (s.nm fold e) := fun k h => ((C.2 k e).mp h).2.symm

theorem known_withKeys {s : St} {e x : Id} {ks : KVs} (h : s.known x) : (s.withKeys e ks).known x := by
  simpa [St.known] using h

end C07

namespace C07
variable {fold : Name → Name}

/-- `inv_rekey` for the concrete shape all key-changing operations produce. -/
theorem inv_put (F : FoldOK fold) {s : St} (I : Inv fold s) {e : Id} (he : s.known e)
    (ks' : KVs) (bc' : List (Name × Id)) (bt' : List (Option Name × Id))
    (hok : KeysOK fold ks')
    (hsp : e = s.spawn → fold (lookupF fold ks' kClass) = kWorld)
    (hbc : ∀ p, p ∈ bc' ↔ (p ∈ s.byClass ∧ p.2 ≠ e) ∨ (s.indexed e ∧ p = (fold (lookupF fold ks' kClass), e)))
    (hbt : ∀ p, p ∈ bt' ↔ (p ∈ s.byTarget ∧ p.2 ≠ e) ∨
      (s.indexed e ∧ p = (nameKey fold (lookupF fold ks' kTarget), e))) :
    Inv fold { spawn := s.spawn, ents := s.ents, objs := s.objs.set e ks', byClass := bc', byTarget := bt' } := by
  have hk := keysOf_withKeys he ks'
  have hke : St.keysOf { spawn := s.spawn, ents := s.ents, objs := s.objs.set e ks', byClass := bc', byTarget := bt' } e = ks' := by
    show (s.withKeys e ks').keysOf e = ks'
    rw [hk e]; simp
  refine inv_rekey (e := e) I rfl rfl (by simp) ?_ ?_ ?_ ?_ ?_
  · intro e' h; show (s.withKeys e ks').keysOf e' = _; exact (hk e').trans (by simp [h])
  · rw [hke]; exact hok
  · rw [cls_eq_lookup F, hke]; exact hsp
  · rw [cls_eq_lookup F, hke]; exact hbc
  · rw [nm_eq_lookup F, hke]; exact hbt

theorem setKey_inv (F : FoldOK fold) {s : St} (I : Inv fold s) {e : Id} (he : s.known e) (key val : Name) :
    Inv fold (setKey Fix.all fold s e key val).1 := by
  have hC := cls_eq_lookup F s e
  have hN := nm_eq_lookup F s e
  have kne : kClass ≠ kTarget := kClass_ne_kTarget
  have cC := fun k => I.coh.1 k e
  have cT := fun k => I.coh.2 k e
  have hok := KeysOK_putKey (I.keysOK e) key val
  unfold setKey
  simp only [Fix.all, findKey_getD, ↓reduceIte]
  by_cases h1 : fold key = kClass
  · simp only [h1, ↓reduceIte]
    have hbt : ∀ p : Option Name × Id, p ∈ s.byTarget ↔ (p ∈ s.byTarget ∧ p.2 ≠ e) ∨
        (s.indexed e ∧ p = (nameKey fold (lookupF fold (putKey fold (s.keysOf e) key val) kTarget), e)) := by
      intro p
      rw [lookupF_putKey, h1]
      simp only [kne.symm, ↓reduceIte, ← hN]
      exact same_char (fun k => cT k) p
    by_cases h2 : e ∈ s.ents
    · simp only [h2, ↓reduceIte]
      refine inv_put F I he _ _ _ hok ?_ ?_ hbt
      · intro h; exact absurd (h ▸ h2) I.spawnOut
      · intro p
        rw [lookupF_putKey, mem_idxAdd, ← hC]
        show p ∈ idxDel s.byClass _ e ∨ _ ↔ _
        rw [del_char (cohC_unique I.coh e)]
        simp [h1, St.indexed, h2]
    · simp only [h2, ↓reduceIte]
      by_cases h3 : e = s.spawn
      · simp only [h3, ↓reduceIte]
        by_cases h4 : fold val = kWorld
        · simp only [h4, ne_eq, not_true_eq_false, ↓reduceIte]
          rw [← h3]
          refine inv_put F I he _ _ _ hok ?_ ?_ hbt
          · intro _; rw [lookupF_putKey]; simp [h1, h4]
          · intro p
            rw [lookupF_putKey, mem_idxAdd, ← hC]
            show p ∈ idxDel s.byClass _ e ∨ _ ↔ _
            rw [del_char (cohC_unique I.coh e)]
            simp [h1, St.indexed, h3, h4]
        · simp only [ne_eq, h4, not_false_eq_true, ↓reduceIte]
          rw [← h3]
          show Inv fold { spawn := s.spawn, ents := s.ents, objs := (s.objs.set e (putKey fold (s.keysOf e) key val)).set e (putKey fold (putKey fold (s.keysOf e) key val) kClass kWorld), byClass := idxAdd (idxDel (idxDel s.byClass (fold (lookupF fold (s.keysOf e) kClass)) e) (fold val) e) kWorld e, byTarget := s.byTarget }
          rw [List.set_set]
          refine inv_put F I he _ _ _ (KeysOK_putKey hok _ _) ?_ ?_ ?_
          · intro _; rw [lookupF_putKey]; simp [F.cls, F.world]
          · intro p
            rw [lookupF_putKey, mem_idxAdd, mem_idxDel, ← hC, del_char (cohC_unique I.coh e)]
            obtain ⟨k, x⟩ := p
            simp only [F.cls, ↓reduceIte, F.world, St.indexed, h3, or_true, true_and, ne_eq, Prod.mk.injEq, not_and]
            constructor
            · rintro (⟨h, _⟩ | h)
              · exact Or.inl h
              · exact Or.inr h
            · rintro (h | h)
              · exact Or.inl ⟨h, fun _ hx => h.2 (h3 ▸ hx)⟩
              · exact Or.inr h
          · intro p
            rw [lookupF_putKey, F.cls]
            simp only [kne.symm, ↓reduceIte]
            exact hbt p
      · simp only [h3, ↓reduceIte]
        refine inv_put F I he _ _ _ hok ?_ ?_ hbt
        · intro h; exact absurd h h3
        · intro p
          rw [← hC]
          show p ∈ idxDel s.byClass _ e ↔ _
          rw [del_char (cohC_unique I.coh e)]
          simp [St.indexed, h2, h3]
  · simp only [h1, ↓reduceIte]
    have hbc : ∀ p : Name × Id, p ∈ s.byClass ↔ (p ∈ s.byClass ∧ p.2 ≠ e) ∨
        (s.indexed e ∧ p = (fold (lookupF fold (putKey fold (s.keysOf e) key val) kClass), e)) := by
      intro p
      rw [lookupF_putKey]
      have : ¬ kClass = fold key := fun x => h1 x.symm
      simp only [this, ↓reduceIte, ← hC]
      exact same_char (fun k => cC k) p
    have hsp : e = s.spawn → fold (lookupF fold (putKey fold (s.keysOf e) key val) kClass) = kWorld := by
      intro h
      rw [lookupF_putKey]
      have : ¬ kClass = fold key := fun x => h1 x.symm
      simp only [this, ↓reduceIte, h]
      rw [← cls_eq_lookup F]; exact I.spawnCls
    by_cases h2 : fold key = kTarget
    · simp only [h2, ↓reduceIte, true_and]
      by_cases h3 : e ∈ s.ents ∨ e = s.spawn
      · simp only [h3, ↓reduceIte]
        refine inv_put F I he _ _ _ hok hsp hbc ?_
        intro p
        rw [lookupF_putKey, mem_idxAdd, ← hN]
        show p ∈ idxDel s.byTarget _ e ∨ _ ↔ _
        rw [del_char (cohT_unique I.coh e)]
        simp only [h2, ↓reduceIte]
        have : s.indexed e := h3
        simp [this]
      · simp only [h3, ↓reduceIte]
        refine inv_put F I he _ _ _ hok hsp hbc ?_
        intro p
        rw [← hN]
        show p ∈ idxDel s.byTarget _ e ↔ _
        rw [del_char (cohT_unique I.coh e)]
        have : ¬ s.indexed e := h3
        simp [this]
    · simp only [h2, ↓reduceIte]
      refine inv_put F I he _ _ _ hok hsp hbc ?_
      intro p
      rw [lookupF_putKey]
      have : ¬ kTarget = fold key := fun x => h2 x.symm
      simp only [this, ↓reduceIte, ← hN]
      exact same_char (fun k => cT k) p
end C07

namespace C07
variable {fold : Name → Name}

/-! frame facts of setKey -/
theorem setKey_frame (s : St) (e : Id) (key val : Name) (fx : Fix) :
    (setKey fx fold s e key val).1.ents = s.ents ∧ (setKey fx fold s e key val).1.spawn = s.spawn ∧
    (setKey fx fold s e key val).1.objs.length = s.objs.length := by
  unfold setKey
  simp only
  split
  · split
    · simp
    · split
      · split <;> simp
      · simp
  · split
    · split <;> simp
    · simp

theorem setKey_keys_other (s : St) {e : Id} (he : s.known e) (key val : Name) (fx : Fix) {e' : Id} (h : e' ≠ e) :
    (setKey fx fold s e key val).1.keysOf e' = s.keysOf e' := by
  have hk := keysOf_withKeys he (putKey fold (s.keysOf e) key val) e'
  simp only [h, ↓reduceIte] at hk
  unfold setKey
  simp only
  split
  · split
    · exact hk
    · split
      · split
        · show St.keysOf ((s.withKeys e _).withKeys e _) e' = _
          rw [keysOf_withKeys (known_withKeys he)]; simp only [h, ↓reduceIte]; exact hk
        · exact hk
      · exact hk
  · split
    · split <;> exact hk
    · exact hk

theorem setKey_keys_self (s : St) {e : Id} (he : s.known e) (key val : Name) (fx : Fix)
    (h : (setKey fx fold s e key val).2 = false) :
    (setKey fx fold s e key val).1.keysOf e = putKey fold (s.keysOf e) key val := by
  have hk := keysOf_withKeys he (putKey fold (s.keysOf e) key val) e
  simp only [↓reduceIte] at hk
  unfold setKey at h ⊢
  simp only at h ⊢
  split
  · rename_i h1
    simp only [h1, ↓reduceIte] at h
    split
    · exact hk
    · rename_i h2
      simp only [h2, ↓reduceIte] at h
      split
      · rename_i h3
        simp only [h3, ↓reduceIte] at h
        split
        · rename_i h4; simp [h4] at h
        · exact hk
      · exact hk
  · split
    · split <;> exact hk
    · exact hk
end C07

namespace C07
variable {fold : Name → Name}

theorem delKey_frame (s : St) (e : Id) (key : Name) (fx : Fix) :
    (delKey fx fold s e key).1.ents = s.ents ∧ (delKey fx fold s e key).1.spawn = s.spawn ∧
    (delKey fx fold s e key).1.objs.length = s.objs.length := by
  unfold delKey
  simp only
  split <;> split <;> (try split) <;> simp

theorem delKey_inv (F : FoldOK fold) {s : St} (I : Inv fold s) {e : Id} (he : s.known e) (key : Name) :
    Inv fold (delKey Fix.all fold s e key).1 := by
  have hC := cls_eq_lookup F s e
  have hN := nm_eq_lookup F s e
  have kne : kClass ≠ kTarget := kClass_ne_kTarget
  have cC := fun k => I.coh.1 k e
  have cT := fun k => I.coh.2 k e
  unfold delKey
  simp only [Fix.all, ↓reduceIte, true_and]
  by_cases h1 : fold key = kTarget
  · have h1' : ¬ kTarget = kClass := kne.symm
    simp only [h1, ↓reduceIte, h1']
    have hok := KeysOK_eraseFirst (I.keysOK e) kTarget
    have hbc : ∀ p : Name × Id, p ∈ s.byClass ↔ (p ∈ s.byClass ∧ p.2 ≠ e) ∨
        (s.indexed e ∧ p = (fold (lookupF fold (eraseFirst fold (s.keysOf e) kTarget) kClass), e)) := by
      intro p
      rw [lookupF_eraseFirst (I.keysOK e)]
      simp only [kne, ↓reduceIte, ← hC]
      exact same_char (fun k => cC k) p
    have hsp : e = s.spawn → fold (lookupF fold (eraseFirst fold (s.keysOf e) kTarget) kClass) = kWorld := by
      intro h
      rw [lookupF_eraseFirst (I.keysOK e)]
      simp only [kne, ↓reduceIte, h]
      rw [← cls_eq_lookup F]; exact I.spawnCls
    by_cases h2 : s.indexed e
    · simp only [h2, not_true_eq_false, ↓reduceIte]
      refine inv_put F I he _ _ _ hok hsp hbc ?_
      intro p
      rw [lookupF_eraseFirst (I.keysOK e), mem_idxAdd]
      simp only [↓reduceIte, nameKey, F.nil]
      rw [getVal, F.tgt, ← hN]
      have := del_char (cohT_unique I.coh e) p
      simp only [nameKey] at this
      rw [this]
      simp [h2]
    · simp only [h2, not_false_eq_true, ↓reduceIte]
      refine inv_put F I he _ _ _ hok hsp hbc ?_
      intro p
      rw [getVal, F.tgt, ← hN]
      show p ∈ idxDel s.byTarget _ e ↔ _
      rw [del_char (cohT_unique I.coh e)]
      simp [h2]
  · simp only [h1, ↓reduceIte]
    by_cases h2 : fold key = kClass
    · simp only [h2, ↓reduceIte]; exact I
    · simp only [h2, ↓reduceIte]
      have n1 : ¬ kClass = fold key := fun x => h2 x.symm
      have n2 : ¬ kTarget = fold key := fun x => h1 x.symm
      refine inv_put F I he _ _ _ (KeysOK_eraseFirst (I.keysOK e) _) ?_ ?_ ?_
      · intro h
        rw [lookupF_eraseFirst (I.keysOK e)]
        simp only [n1, ↓reduceIte, h]
        rw [← cls_eq_lookup F]; exact I.spawnCls
      · intro p
        rw [lookupF_eraseFirst (I.keysOK e)]
        simp only [n1, ↓reduceIte, ← hC]
        exact same_char (fun k => cC k) p
      · intro p
        rw [lookupF_eraseFirst (I.keysOK e)]
        simp only [n2, ↓reduceIte, ← hN]
        exact same_char (fun k => cT k) p

theorem delKey_objs (s : St) (e : Id) (key : Name) (fx : Fix) :
    (delKey fx fold s e key).1.objs =
      if fold key = kClass then s.objs else s.objs.set e (eraseFirst fold (s.keysOf e) (fold key)) := by
  unfold delKey
  simp only
  split <;> (repeat' split) <;> rfl

theorem delKey_keys_other (s : St) {e : Id} (he : s.known e) (key : Name) (fx : Fix) {e' : Id} (h : e' ≠ e) :
    (delKey fx fold s e key).1.keysOf e' = s.keysOf e' := by
  unfold St.keysOf
  rw [delKey_objs]
  split
  · rfl
  · have := keysOf_withKeys he (eraseFirst fold (s.keysOf e) (fold key)) e'
    simp only [h, ↓reduceIte] at this
    exact this

theorem delKey_keys_self (s : St) {e : Id} (he : s.known e) (key : Name) (fx : Fix) (h : fold key ≠ kClass) :
    (delKey fx fold s e key).1.keysOf e = eraseFirst fold (s.keysOf e) (fold key) := by
  have := keysOf_withKeys he (eraseFirst fold (s.keysOf e) (fold key)) e
  simp only [↓reduceIte] at this
  rw [← this]
  show (delKey fx fold s e key).1.objs[e]?.getD [] = _
  rw [delKey_objs]
  simp only [h, ↓reduceIte]
  rfl
end C07

namespace C07
variable {fold : Name → Name}

/-- frame: what every entity-level operation preserves. -/
structure Frame (s s' : St) : Prop where
  ents : s'.ents = s.ents
  spawn : s'.spawn = s.spawn
  len : s'.objs.length = s.objs.length

theorem Frame.refl (s : St) : Frame s s := ⟨rfl, rfl, rfl⟩
theorem Frame.trans {a b c : St} (h1 : Frame a b) (h2 : Frame b c) : Frame a c :=
  ⟨h2.ents.trans h1.ents, h2.spawn.trans h1.spawn, h2.len.trans h1.len⟩
theorem Frame.known {s s' : St} (h : Frame s s') {e : Id} (he : s.known e) : s'.known e := by
  simpa [St.known, h.len] using he

theorem setKey_Frame (s : St) (e : Id) (key val : Name) (fx : Fix) :
    Frame s (setKey fx fold s e key val).1 :=
  let h := setKey_frame (fold := fold) s e key val fx; ⟨h.1, h.2.1, h.2.2⟩
theorem delKey_Frame (s : St) (e : Id) (key : Name) (fx : Fix) :
    Frame s (delKey fx fold s e key).1 :=
  let h := delKey_frame (fold := fold) s e key fx; ⟨h.1, h.2.1, h.2.2⟩

theorem delKeys_inv (F : FoldOK fold) {s : St} (I : Inv fold s) {e : Id} (he : s.known e) (ks : List Name) :
    Inv fold (delKeys Fix.all fold s e ks).1 ∧ Frame s (delKeys Fix.all fold s e ks).1 := by
  induction ks generalizing s with
  | nil => exact ⟨I, Frame.refl s⟩
  | cons k r ih =>
    simp only [delKeys]
    have I1 := delKey_inv F I he k
    have L1 := delKey_Frame (fold := fold) s e k Fix.all
    generalize delKey Fix.all fold s e k = res at I1 L1 ⊢
    obtain ⟨s1, r1⟩ := res
    cases r1
    · have := ih I1 (L1.known he)
      exact ⟨this.1, L1.trans this.2⟩
    all_goals exact ⟨I1, L1⟩

theorem popKey_inv (F : FoldOK fold) {s : St} (I : Inv fold s) {e : Id} (he : s.known e) (key : Name) :
    Inv fold (popKey Fix.all fold s e key).1 ∧ Frame s (popKey Fix.all fold s e key).1 := by
  unfold popKey
  split
  · exact ⟨I, Frame.refl s⟩
  · simp only [Fix.all, ↓reduceIte]
    exact ⟨delKey_inv F I he _, delKey_Frame s e _ _⟩

theorem popItem_inv (F : FoldOK fold) {s : St} (I : Inv fold s) {e : Id} (he : s.known e) :
    Inv fold (popItem Fix.all fold s e).1 ∧ Frame s (popItem Fix.all fold s e).1 := by
  unfold popItem
  split
  · exact ⟨I, Frame.refl s⟩
  · exact ⟨delKey_inv F I he _, delKey_Frame s e _ _⟩

theorem setKeys_inv (F : FoldOK fold) {s : St} (I : Inv fold s) {e : Id} (he : s.known e) (kvs : KVs) :
    Inv fold (setKeys Fix.all fold s e kvs).1 ∧ Frame s (setKeys Fix.all fold s e kvs).1 ∧
      ∀ e', e' ≠ e → (setKeys Fix.all fold s e kvs).1.keysOf e' = s.keysOf e' := by
  induction kvs generalizing s with
  | nil => exact ⟨I, Frame.refl s, fun _ _ => rfl⟩
  | cons kv r ih =>
    obtain ⟨k, v⟩ := kv
    simp only [setKeys]
    have I1 := setKey_inv F I he k v
    have L1 := setKey_Frame (fold := fold) s e k v Fix.all
    have K1 := fun e' (h : e' ≠ e) => setKey_keys_other (fold := fold) s he k v Fix.all h
    generalize setKey Fix.all fold s e k v = res at I1 L1 K1 ⊢
    obtain ⟨s1, b⟩ := res
    cases b
    · have := ih I1 (L1.known he)
      exact ⟨this.1, L1.trans this.2.1, fun e' h => (this.2.2 e' h).trans (K1 e' h)⟩
    · exact ⟨I1, L1, K1⟩

theorem clearEnt_inv (F : FoldOK fold) {s : St} (I : Inv fold s) {e : Id} (he : s.known e) :
    Inv fold (clearEnt Fix.all fold s e).1 ∧ Frame s (clearEnt Fix.all fold s e).1 := by
  unfold clearEnt
  have I1 := setKey_inv F I he kClass kInfoNull
  have L1 := setKey_Frame (fold := fold) s e kClass kInfoNull Fix.all
  have K1 := setKey_keys_self (fold := fold) s he kClass kInfoNull Fix.all
  generalize setKey Fix.all fold s e kClass kInfoNull = res at I1 L1 K1 ⊢
  obtain ⟨s1, b⟩ := res
  cases b
  · simp only [show Fix.all.clearKeepsClass = true from rfl, ↓reduceIte]
    have K1 := K1 rfl
    simp only at K1 I1 L1
    have he1 := L1.known he
    have I2 := delKey_inv F I1 he1 kTarget
    have L2 := delKey_Frame (fold := fold) s1 e kTarget Fix.all
    have hne : fold kTarget ≠ kClass := by rw [F.tgt]; exact kClass_ne_kTarget.symm
    have K2 := delKey_keys_self (fold := fold) s1 he1 kTarget Fix.all hne
    generalize (delKey Fix.all fold s1 e kTarget).1 = s2 at I2 L2 K2 ⊢
    have he2 := L2.known he1
    have hc2 : s2.cls fold e = kInfoNull := by
      rw [cls_eq_lookup F, K2, F.tgt, lookupF_eraseFirst (by rw [K1]; exact KeysOK_putKey (I.keysOK e) _ _), K1,
        lookupF_putKey]
      simp [kClass_ne_kTarget, F.cls]
    have hn2 : s2.nm fold e = [] := by
      rw [nm_eq_lookup F, K2, F.tgt, lookupF_eraseFirst (by rw [K1]; exact KeysOK_putKey (I.keysOK e) _ _)]
      simp
    have hl1 : lookupF fold [(kClass, kInfoNull)] kClass = kInfoNull := by simp [lookupF, F.cls]
    have hl2 : lookupF fold [(kClass, kInfoNull)] kTarget = [] := by
      simp [lookupF, F.cls, kClass_ne_kTarget]
    refine ⟨?_, L1.trans (L2.trans ⟨rfl, rfl, by simp⟩)⟩
    refine inv_put F I2 he2 _ s2.byClass s2.byTarget (KeysOK_single _ _) ?_ ?_ ?_
    · intro h; rw [hl1, ← hc2, h]; exact I2.spawnCls
    · intro p; rw [hl1, ← hc2]; exact same_char (fun k => I2.coh.1 k e) p
    · intro p; rw [hl2, ← hn2]; exact same_char (fun k => I2.coh.2 k e) p
  · exact ⟨I1, L1⟩

end C07

namespace C07
variable {fold : Name → Name}

theorem getD_append_nil (l : List KVs) (i : Nat) : ((l ++ [[]])[i]?).getD [] = (l[i]?).getD [] := by
  by_cases h : i < l.length
  · rw [List.getElem?_append_left h]
  · have h' : l.length ≤ i := Nat.le_of_not_lt h
    rw [List.getElem?_append_right h', List.getElem?_eq_none h']
    by_cases h2 : i - l.length = 0
    · simp [h2]
    · have : [([] : KVs)][i - l.length]? = none := by
        apply List.getElem?_eq_none; simp; omega
      simp [this]

/-- a state with the same entities, indexes and keyvalues (possibly more objects) is as good. -/
theorem inv_congr {s s' : St} (I : Inv fold s) (hents : s'.ents = s.ents) (hspawn : s'.spawn = s.spawn)
    (hbc : s'.byClass = s.byClass) (hbt : s'.byTarget = s.byTarget)
    (hkeys : ∀ e, s'.keysOf e = s.keysOf e) (hlen : s.objs.length ≤ s'.objs.length) : Inv fold s' := by
  have hcls : ∀ e, s'.cls fold e = s.cls fold e := by intro e; simp [St.cls, hkeys]
  have hnm : ∀ e, s'.nm fold e = s.nm fold e := by intro e; simp [St.nm, hkeys]
  have hidx : ∀ x, s'.indexed x ↔ s.indexed x := by intro x; simp [St.indexed, hents, hspawn]
  refine ⟨⟨?_, ?_⟩, ?_, ?_, ?_, ?_, ?_, ?_⟩
  · intro k e; rw [hbc, hidx, hcls]; exact I.coh.1 k e
  · intro k e; rw [hbt, hidx, hnm]; exact I.coh.2 k e
  · rw [hents]; exact I.nodup
  · rw [hents, hspawn]; exact I.spawnOut
  · rw [hspawn, hcls]; exact I.spawnCls
  · intro e; rw [hkeys]; exact I.keysOK e
  · have h := I.spawnKnown
    unfold St.known at h ⊢
    rw [hspawn]; exact Nat.lt_of_lt_of_le h hlen
  · intro e h
    rw [hents] at h
    have h := I.entsKnown e h
    unfold St.known at h ⊢
    exact Nat.lt_of_lt_of_le h hlen

/-- what `construct` guarantees. -/
structure Constructed (s s' : St) (e : Id) : Prop where
  ents : s'.ents = s.ents
  spawn : s'.spawn = s.spawn
  len : s'.objs.length = s.objs.length + 1
  new : e = s.objs.length
  keys : ∀ e', e' ≠ e → s'.keysOf e' = s.keysOf e'

theorem construct_inv (F : FoldOK fold) {s : St} (I : Inv fold s) (kvs : KVs) :
    Inv fold (construct Fix.all fold s kvs).1 ∧
      Constructed s (construct Fix.all fold s kvs).1 (construct Fix.all fold s kvs).2 := by
  unfold construct
  simp only
  have I0 : Inv fold { s with objs := s.objs ++ [[]] } :=
    inv_congr I rfl rfl rfl rfl (fun e => getD_append_nil s.objs e) (by simp)
  have he : St.known { s with objs := s.objs ++ [[]] } s.objs.length := by simp [St.known]
  have := setKeys_inv F I0 he kvs
  refine ⟨this.1, this.2.1.ents, this.2.1.spawn, ?_, rfl, ?_⟩
  · rw [this.2.1.len]; simp
  · intro e' h; rw [this.2.2 e' h]; exact getD_append_nil s.objs e'

theorem Constructed.known {s s' : St} {e : Id} (h : Constructed s s' e) {x : Id} (hx : s.known x) : s'.known x := by
  unfold St.known at hx ⊢
  rw [h.len]; exact Nat.lt_succ_of_lt hx
theorem Constructed.knownNew {s s' : St} {e : Id} (h : Constructed s s' e) : s'.known e := by
  unfold St.known
  rw [h.len, h.new]; exact Nat.lt_succ_self _

theorem addEnt_inv {s : St} (I : Inv fold s) {e : Id} (he : s.known e)
    (h1 : e ∉ s.ents) (h2 : e ≠ s.spawn) : Inv fold (addEnt fold s e) := by
  have hni : ¬ s.indexed e := by simp [St.indexed, h1, h2]
  unfold addEnt addIdx
  refine ⟨⟨?_, ?_⟩, ?_, ?_, ?_, ?_, ?_, ?_⟩
  · intro k x
    show (k, x) ∈ idxAdd s.byClass (fold (s.cls fold e)) e ↔ (x ∈ s.ents ++ [e] ∨ x = s.spawn) ∧ fold (s.cls fold x) = k
    rw [mem_idxAdd, I.coh.1 k x]
    by_cases hx : x = e
    · subst hx; simp [hni, eq_comm]
    · simp [hx, St.indexed]
  · intro k x
    show (k, x) ∈ idxAdd s.byTarget (nameKey fold (s.nm fold e)) e ↔
      (x ∈ s.ents ++ [e] ∨ x = s.spawn) ∧ nameKey fold (s.nm fold x) = k
    rw [mem_idxAdd, I.coh.2 k x]
    by_cases hx : x = e
    · subst hx; simp [hni, eq_comm]
    · simp [hx, St.indexed]
  · show (s.ents ++ [e]).Nodup
    exact List.nodup_append.mpr ⟨I.nodup, by simp, by
      intro a ha b hb; simp only [List.mem_singleton] at hb; subst hb; intro hab; subst hab; exact h1 ha⟩
  · show s.spawn ∉ s.ents ++ [e]
    simp only [List.mem_append, List.mem_singleton, not_or]
    exact ⟨I.spawnOut, fun h => h2 h.symm⟩
  · exact I.spawnCls
  · exact I.keysOK
  · exact I.spawnKnown
  · intro x hx
    have : x ∈ s.ents ++ [e] := hx
    simp only [List.mem_append, List.mem_singleton] at this
    rcases this with h | h
    · exact I.entsKnown x h
    · subst h; exact he

theorem addEnt_frame (s : St) (e : Id) :
    (addEnt fold s e).ents = s.ents ++ [e] ∧ (addEnt fold s e).spawn = s.spawn ∧ (addEnt fold s e).objs = s.objs :=
  ⟨rfl, rfl, rfl⟩

theorem addIdx_ents (s : St) (e : Id) (X : List Id) :
    addIdx fold { s with ents := X } e = { addIdx fold s e with ents := X } := rfl

theorem addEnts_eq (s : St) (es : List Id) : addEnts fold s es = es.foldl (addEnt fold) s := by
  unfold addEnts
  induction es generalizing s with
  | nil => simp
  | cons a t ih =>
    simp only [List.foldl_cons]
    have := ih (addEnt fold s a)
    rw [← this]
    have e1 : s.ents ++ a :: t = (s.ents ++ [a]) ++ t := by simp
    rw [e1]; rfl

theorem addEnts_inv {s : St} (I : Inv fold s) (es : List Id) (hn : es.Nodup)
    (h : ∀ e ∈ es, s.known e ∧ e ∉ s.ents ∧ e ≠ s.spawn) : Inv fold (addEnts fold s es) := by
  rw [addEnts_eq]
  induction es generalizing s with
  | nil => exact I
  | cons a t ih =>
    simp only [List.foldl_cons]
    have ha := h a (by simp)
    have hn' := List.nodup_cons.mp hn
    apply ih (addEnt_inv I ha.1 ha.2.1 ha.2.2) hn'.2
    intro e he
    have := h e (by simp [he])
    refine ⟨this.1, ?_, this.2.2⟩
    show e ∉ s.ents ++ [a]
    simp only [List.mem_append, List.mem_singleton, not_or]
    exact ⟨this.2.1, fun hx => hn'.1 (hx ▸ he)⟩

theorem removeEnt_inv {s : St} (I : Inv fold s) (e : Id) :
    Inv fold (removeEnt Fix.all fold s e).1 ∧ (removeEnt Fix.all fold s e).1.spawn = s.spawn ∧
      (removeEnt Fix.all fold s e).1.objs = s.objs := by
  unfold removeEnt
  simp only [Fix.all, true_and]
  by_cases h : e = s.spawn
  · rw [if_pos h]; exact ⟨I, rfl, rfl⟩
  · rw [if_neg h]
    refine ⟨⟨⟨?_, ?_⟩, ?_, ?_, ?_, ?_, ?_, ?_⟩, rfl, rfl⟩
    · intro k x
      show (k, x) ∈ idxDel s.byClass (fold (s.cls fold e)) e ↔ (x ∈ s.ents.erase e ∨ x = s.spawn) ∧ fold (s.cls fold x) = k
      rw [del_char (cohC_unique I.coh e), I.coh.1 k x, I.nodup.mem_erase_iff]
      by_cases hx : x = e
      · subst hx; simp [h]
      · simp [hx, St.indexed]
    · intro k x
      show (k, x) ∈ idxDel s.byTarget (nameKey fold (s.nm fold e)) e ↔
        (x ∈ s.ents.erase e ∨ x = s.spawn) ∧ nameKey fold (s.nm fold x) = k
      rw [del_char (cohT_unique I.coh e), I.coh.2 k x, I.nodup.mem_erase_iff]
      by_cases hx : x = e
      · subst hx; simp [h]
      · simp [hx, St.indexed]
    · exact I.nodup.erase e
    · exact fun hx => I.spawnOut (List.mem_of_mem_erase hx)
    · exact I.spawnCls
    · exact I.keysOK
    · exact I.spawnKnown
    · intro x hx; exact I.entsKnown x (List.mem_of_mem_erase hx)

end C07

namespace C07
variable {fold : Name → Name}

/-- the state only grew and `ents ∪ {spawn}` stay known: what sequencing needs. -/
def Mono (s s' : St) : Prop := s.objs.length ≤ s'.objs.length

theorem Mono.known {s s' : St} (h : Mono s s') {e : Id} (he : s.known e) : s'.known e := by
  unfold St.known at he ⊢; exact Nat.lt_of_lt_of_le he h
theorem Mono.refl (s : St) : Mono s s := Nat.le_refl _
theorem Mono.trans {a b c : St} (h1 : Mono a b) (h2 : Mono b c) : Mono a c := Nat.le_trans h1 h2
theorem Frame.mono {s s' : St} (h : Frame s s') : Mono s s' := by unfold Mono; rw [h.len]; exact Nat.le_refl _
theorem Constructed.mono {s s' : St} {e : Id} (h : Constructed s s' e) : Mono s s' := by
  unfold Mono; rw [h.len]; exact Nat.le_succ _

theorem createEnt_inv (F : FoldOK fold) {s : St} (I : Inv fold s) (c : Name) (kw : KVs) :
    Inv fold (createEnt Fix.all fold s c kw).1 ∧ Mono s (createEnt Fix.all fold s c kw).1 := by
  unfold createEnt
  have := construct_inv F I (kw ++ [(kClass, c)])
  generalize construct Fix.all fold s (kw ++ [(kClass, c)]) = r at this
  obtain ⟨s1, e⟩ := r
  obtain ⟨I1, C⟩ := this
  simp only at I1 C ⊢
  have hne : e ∉ s1.ents := by
    rw [C.ents]; intro h
    have := I.entsKnown e h
    unfold St.known at this; rw [C.new] at this; exact Nat.lt_irrefl _ this
  have hns : e ≠ s1.spawn := by
    rw [C.spawn]; intro h
    have := I.spawnKnown
    unfold St.known at this; rw [← h, C.new] at this; exact Nat.lt_irrefl _ this
  exact ⟨addEnt_inv I1 C.knownNew hne hns, C.mono⟩

theorem makeUnique_inv (F : FoldOK fold) {s : St} (I : Inv fold s) {e : Id} (he : s.known e) (pre : Name) :
    Inv fold (makeUnique Fix.all fold s e pre) ∧ Frame s (makeUnique Fix.all fold s e pre) := by
  have go : ∀ (s1 : St), Inv fold s1 → Frame s s1 → ∀ base0 : Name,
      Inv fold (if idxGet s1.byTarget (some (rstripDigits base0)) ≠ [] then
        match findFree s1.byTarget (rstripDigits base0) (s1.byTarget.length + 1) 1 with
        | some name => (setKey Fix.all fold s1 e kTarget name).1
        | none => s1
      else (setKey Fix.all fold s1 e kTarget (rstripDigits base0)).1) ∧
      Frame s (if idxGet s1.byTarget (some (rstripDigits base0)) ≠ [] then
        match findFree s1.byTarget (rstripDigits base0) (s1.byTarget.length + 1) 1 with
        | some name => (setKey Fix.all fold s1 e kTarget name).1
        | none => s1
      else (setKey Fix.all fold s1 e kTarget (rstripDigits base0)).1) := by
    intro s1 I1 L1 base0
    have he1 := L1.known he
    split
    · split
      · exact ⟨setKey_inv F I1 he1 _ _, L1.trans (setKey_Frame s1 e _ _ _)⟩
      · exact ⟨I1, L1⟩
    · exact ⟨setKey_inv F I1 he1 _ _, L1.trans (setKey_Frame s1 e _ _ _)⟩
  unfold makeUnique
  simp only
  split
  · split
    · exact ⟨I, Frame.refl s⟩
    · exact go _ (setKey_inv F I he _ _) (setKey_Frame s e _ _ _) _
  · exact go s I (Frame.refl s) pre

theorem applyAct_inv (F : FoldOK fold) {s : St} (I : Inv fold s) {e : Id} (he : s.known e) (a : Act) :
    Inv fold (applyAct Fix.all fold s e a) ∧ Mono s (applyAct Fix.all fold s e a) := by
  cases a with
  | set k v => exact ⟨setKey_inv F I he k v, (setKey_Frame s e k v _).mono⟩
  | del k => exact ⟨delKey_inv F I he k, (delKey_Frame s e k _).mono⟩
  | pop k => exact ⟨(popKey_inv F I he k).1, (popKey_inv F I he k).2.mono⟩
  | remove =>
    have := removeEnt_inv (fold := fold) I e
    exact ⟨this.1, by unfold Mono applyAct; rw [this.2.2]; exact Nat.le_refl _⟩
  | clear => exact ⟨(clearEnt_inv F I he).1, (clearEnt_inv F I he).2.mono⟩
  | create c kw => exact createEnt_inv F I c kw

theorem forEach_inv (F : FoldOK fold) {s : St} (I : Inv fold s) (es : List Id) (h : ∀ e ∈ es, s.known e) (a : Act) :
    Inv fold (forEach Fix.all fold s es a) ∧ Mono s (forEach Fix.all fold s es a) := by
  unfold forEach
  induction es generalizing s with
  | nil => exact ⟨I, Mono.refl s⟩
  | cons x t ih =>
    simp only [List.foldl_cons]
    have h1 := applyAct_inv F I (h x (by simp)) a
    have := ih h1.1 (fun e he => h1.2.known (h e (by simp [he])))
    exact ⟨this.1, h1.2.trans this.2⟩

theorem Inv.known_of_indexed {s : St} (I : Inv fold s) {e : Id} (h : s.indexed e) : s.known e := by
  rcases h with h | h
  · exact I.entsKnown e h
  · rw [h]; exact I.spawnKnown

theorem iterate_inv (F : FoldOK fold) {s : St} (I : Inv fold s) (look : St → List Id)
    (hl : ∀ t : St, Inv fold t → ∀ e ∈ look t, t.indexed e) (a : Act) :
    Inv fold (iterate Fix.all fold s look a) ∧ Mono s (iterate Fix.all fold s look a) := by
  unfold iterate
  simp only
  have h1 := forEach_inv F I (look s) (fun e he => I.known_of_indexed (hl s I e he)) a
  have h2 := forEach_inv F h1.1
    ((look (forEach Fix.all fold s (look s) a)).filter (fun e => decide (e ∉ look s)))
    (fun e he => h1.1.known_of_indexed (hl _ h1.1 e (List.mem_filter.mp he).1)) a
  exact ⟨h2.1, h1.2.trans h2.2⟩

theorem assignKeys_inv (F : FoldOK fold) {s : St} (I : Inv fold s) {e : Id} (he : s.known e) (kvs : KVs) :
    Inv fold (assignKeys Fix.all fold s e kvs).1 := by
  unfold assignKeys
  have h1 := clearEnt_inv F I he
  generalize clearEnt Fix.all fold s e = r at h1
  obtain ⟨s1, r1⟩ := r
  cases r1
  · simp only
    have h2 := (setKeys_inv F h1.1 (h1.2.known he) kvs).1
    generalize setKeys Fix.all fold s1 e kvs = r2 at h2
    obtain ⟨s2, b⟩ := r2
    cases b <;> exact h2
  all_goals exact h1.1

theorem delEach_inv (F : FoldOK fold) {s : St} (I : Inv fold s) {e : Id} (he : s.known e) :
    Inv fold (delEach Fix.all fold s e) := by
  unfold delEach
  generalize (s.keysOf e).map (·.1) = ks
  induction ks generalizing s with
  | nil => exact I
  | cons k r ih =>
    simp only [List.foldl_cons]
    exact ih (delKey_inv F I he k) ((delKey_Frame s e k Fix.all).known he)

/-- API preconditions of one operation (see ASSUMPTIONS of the check). -/
def Valid (s : St) : Op → Prop
  | .construct _ => True
  | .addEnt e => s.known e ∧ e ∉ s.ents ∧ e ≠ s.spawn
  | .addEnts es => es.Nodup ∧ ∀ e ∈ es, s.known e ∧ e ∉ s.ents ∧ e ≠ s.spawn
  | .createEnt _ _ => True
  | .removeEnt _ => True
  | .setKey e _ _ => s.known e
  | .delKeys e _ => s.known e
  | .popKey e _ => s.known e
  | .popItem e => s.known e
  | .clear e => s.known e
  | .update e _ => s.known e
  | .makeUnique e _ => s.known e
  | .copy _ => True
  | .iterClass _ _ => True
  | .iterTarget _ _ => True
  | .setdefault _ _ _ => True
  | .ior _ _ => True
  | .assignKeys e _ => s.known e
  | .delEach e => s.known e

theorem step_inv (F : FoldOK fold) {s : St} (I : Inv fold s) (op : Op) (hv : Valid s op) :
    Inv fold (step Fix.all fold s op).1 := by
  cases op with
  | construct kvs => exact (construct_inv F I kvs).1
  | addEnt e => exact addEnt_inv I hv.1 hv.2.1 hv.2.2
  | addEnts es => exact addEnts_inv I es hv.1 hv.2
  | createEnt c kw => exact (createEnt_inv F I c kw).1
  | removeEnt e => exact (removeEnt_inv I e).1
  | setKey e k v =>
    have := setKey_inv F I hv k v
    simp only [step]
    split <;> simp_all
  | delKeys e ks => exact (delKeys_inv F I hv ks).1
  | popKey e k => exact (popKey_inv F I hv k).1
  | popItem e => exact (popItem_inv F I hv).1
  | clear e => exact (clearEnt_inv F I hv).1
  | update e kvs =>
    have := (setKeys_inv F I hv kvs).1
    simp only [step]
    split <;> simp_all
  | makeUnique e p => exact (makeUnique_inv F I hv p).1
  | copy e => exact (construct_inv F I _).1
  | iterClass k a =>
    exact (iterate_inv F I _ (fun t It e he => ((It.coh.1 k e).mp (mem_idxGet.mp he)).1) a).1
  | iterTarget k a =>
    exact (iterate_inv F I _ (fun t It e he => ((It.coh.2 k e).mp (mem_idxGet.mp he)).1) a).1
  | setdefault e k v => exact I
  | ior e kvs => exact I
  | assignKeys e kvs => exact assignKeys_inv F I hv kvs
  | delEach e => exact delEach_inv F I hv

end C07

namespace C07
variable {fold : Name → Name}

theorem init_eq (F : FoldOK fold) : init Fix.all fold =
    { spawn := 0, ents := [], objs := [[(kClass, kWorld)]], byClass := [(kWorld, 0)], byTarget := [(none, 0)] } := by
  unfold init setKey
  simp [Fix.all, F.cls, F.world, St.keysOf, St.withKeys, putKey, findKey, idxDel, idxAdd]

theorem init_inv (F : FoldOK fold) : Inv fold (init Fix.all fold) := by
  rw [init_eq F]
  have hc : ∀ e, St.cls fold { spawn := 0, ents := [], objs := [[(kClass, kWorld)]], byClass := [(kWorld, 0)], byTarget := [(none, 0)] } e
      = if e = 0 then kWorld else [] := by
    intro e
    rcases e with _ | e <;> simp [St.cls, St.keysOf, getVal, lookupF, F.cls]
  have hn : ∀ e, St.nm fold { spawn := 0, ents := [], objs := [[(kClass, kWorld)]], byClass := [(kWorld, 0)], byTarget := [(none, 0)] } e
      = [] := by
    intro e
    rcases e with _ | e <;> simp [St.nm, St.keysOf, getVal, lookupF, F.cls, F.tgt, kClass_ne_kTarget]
  refine ⟨⟨?_, ?_⟩, ?_, ?_, ?_, ?_, ?_, ?_⟩
  · intro k e
    rw [hc]
    simp only [St.indexed, List.mem_singleton, Prod.mk.injEq, List.not_mem_nil, false_or]
    constructor
    · rintro ⟨rfl, rfl⟩; simp [F.world]
    · rintro ⟨rfl, h⟩; simp at h; simp [← h, F.world]
  · intro k e
    rw [hn]
    simp only [St.indexed, List.mem_singleton, Prod.mk.injEq, List.not_mem_nil, false_or, nameKey, F.nil, ↓reduceIte]
    constructor
    · rintro ⟨rfl, rfl⟩; simp
    · rintro ⟨rfl, h⟩; simp [← h]
  · simp
  · simp
  · rw [hc]; simp [F.world]
  · intro e
    rcases e with _ | e <;> simp [St.keysOf, KeysOK]
  · simp [St.known]
  · intro e h; simp at h

/-- every operation of the history meets its API precondition in the state it is applied to. -/
def ValidFrom (fold : Name → Name) (s : St) : List Op → Prop
  | [] => True
  | op :: r => Valid s op ∧ ValidFrom fold (step Fix.all fold s op).1 r

theorem run_inv (F : FoldOK fold) (ops : List Op) {s : St} (I : Inv fold s) (hv : ValidFrom fold s ops) :
    Inv fold (run Fix.all fold s ops) := by
  induction ops generalizing s with
  | nil => exact I
  | cons op r ih => exact ih (step_inv F I op hv.1) hv.2

/-! ## search -/
theorem mem_search (F : FoldOK fold) {s : St} (I : Inv fold s) (q : Name) (e : Id) :
    e ∈ search fold s q ↔
      q ≠ [] ∧ s.indexed e ∧
        (if (fold q).getLast? = some '*' then
          fold (s.nm fold e) ≠ [] ∧ (fold q).dropLast.isPrefixOf (fold (s.nm fold e)) = true
        else (fold (s.nm fold e) ≠ [] ∧ fold (s.nm fold e) = fold q) ∨ fold (s.cls fold e) = fold q) := by
  have hT : ∀ k, (k, e) ∈ s.byTarget ↔ (s.indexed e ∧ nameKey fold (s.nm fold e) = k) := fun k => I.coh.2 k e
  unfold search
  by_cases hq : q = []
  · simp [hq]
  · simp only [hq, ↓reduceIte, ne_eq, not_false_eq_true, true_and]
    by_cases hw : (fold q).getLast? = some '*'
    · simp only [hw, ↓reduceIte, List.mem_filterMap]
      constructor
      · rintro ⟨⟨k, x⟩, hm, h⟩
        cases k with
        | none => simp at h
        | some kn =>
          simp only at h
          split at h
          · rename_i hp
            cases h
            have := (hT (some kn)).mp hm
            have hk := this.2
            unfold nameKey at hk
            split at hk
            · cases hk
            · rename_i hne
              cases hk
              rw [F.idem] at hp
              exact ⟨this.1, hne, hp⟩
          · cases h
      · rintro ⟨hi, hne, hp⟩
        refine ⟨(some (fold (s.nm fold e)), e), (hT _).mpr ⟨hi, by simp [nameKey, hne]⟩, ?_⟩
        simp [F.idem, hp]
    · simp only [hw, ↓reduceIte, List.mem_append, List.mem_filterMap, mem_idxGet, I.coh.1]
      constructor
      · rintro (⟨⟨k, x⟩, hm, h⟩ | ⟨hi, hc⟩)
        · cases k with
          | none => simp at h
          | some kn =>
            simp only at h
            split at h
            · rename_i hp
              cases h
              have := (hT (some kn)).mp hm
              have hk := this.2
              unfold nameKey at hk
              split at hk
              · cases hk
              · rename_i hne
                cases hk
                rw [F.idem] at hp
                exact ⟨this.1, Or.inl ⟨hne, hp⟩⟩
            · cases h
        · exact ⟨hi, Or.inr hc⟩
      · rintro ⟨hi, (⟨hne, hp⟩ | hc)⟩
        · left
          refine ⟨(some (fold (s.nm fold e)), e), (hT _).mpr ⟨hi, by simp [nameKey, hne]⟩, ?_⟩
          simp [F.idem, hp]
        · exact Or.inr ⟨hi, hc⟩

/-! ## worldspawn -/
theorem spawn_indexed {s : St} (I : Inv fold s) : (kWorld, s.spawn) ∈ s.byClass :=
  (I.coh.1 kWorld s.spawn).mpr ⟨Or.inr rfl, I.spawnCls⟩

theorem setKey_flag (s : St) (e : Id) (key val : Name) :
    (setKey Fix.all fold s e key val).2 = true ↔
      (fold key = kClass ∧ e ∉ s.ents ∧ e = s.spawn ∧ fold val ≠ kWorld) := by
  unfold setKey
  simp only
  by_cases h1 : fold key = kClass
  · simp only [h1, ↓reduceIte, true_and]
    by_cases h2 : e ∈ s.ents
    · simp [h2]
    · simp only [h2, ↓reduceIte, not_false_eq_true, true_and]
      by_cases h3 : e = s.spawn
      · simp only [h3, ↓reduceIte, true_and]
        by_cases h4 : fold val = kWorld
        · simp [h4]
        · simp [h4]
      · simp [h3]
  · simp only [h1, ↓reduceIte, false_and]
    split
    · split <;> simp
    · simp

theorem setKey_keys_self_err (s : St) {e : Id} (he : s.known e) (key val : Name) (fx : Fix)
    (h : (setKey fx fold s e key val).2 = true) :
    (setKey fx fold s e key val).1.keysOf e = putKey fold (putKey fold (s.keysOf e) key val) kClass kWorld := by
  have hk := keysOf_withKeys (known_withKeys (e := e) (ks := putKey fold (s.keysOf e) key val) he)
    (putKey fold (putKey fold (s.keysOf e) key val) kClass kWorld) e
  simp only [↓reduceIte] at hk
  unfold setKey at h ⊢
  simp only at h ⊢
  split
  · rename_i h1
    simp only [h1, ↓reduceIte] at h
    split
    · rename_i h2; simp [h2] at h
    · rename_i h2
      simp only [h2, ↓reduceIte] at h
      split
      · rename_i h3
        simp only [h3, ↓reduceIte] at h
        split
        · exact hk
        · rename_i h4; simp [h4] at h
      · rename_i h3; simp [h3] at h
  · rename_i h1
    simp only [h1, ↓reduceIte] at h
    split at h
    · split at h <;> simp at h
    · simp at h

theorem spawn_reclass (F : FoldOK fold) {s : St} (I : Inv fold s) (key val : Name)
    (hk : fold key = kClass) (hv : fold val ≠ kWorld) :
    (setKey Fix.all fold s s.spawn key val).2 = true ∧
    Inv fold (setKey Fix.all fold s s.spawn key val).1 ∧
    (setKey Fix.all fold s s.spawn key val).1.ents = s.ents ∧
    (setKey Fix.all fold s s.spawn key val).1.spawn = s.spawn ∧
    (∀ p, p ∈ (setKey Fix.all fold s s.spawn key val).1.byClass ↔ p ∈ s.byClass) ∧
    (∀ p, p ∈ (setKey Fix.all fold s s.spawn key val).1.byTarget ↔ p ∈ s.byTarget) ∧
    (∀ e, e ≠ s.spawn → (setKey Fix.all fold s s.spawn key val).1.keysOf e = s.keysOf e) := by
  have I' := setKey_inv F I I.spawnKnown key val
  have Fr := setKey_Frame (fold := fold) s s.spawn key val Fix.all
  have K := fun e (h : e ≠ s.spawn) => setKey_keys_other (fold := fold) s I.spawnKnown key val Fix.all h
  refine ⟨(setKey_flag s s.spawn key val).mpr ⟨hk, I.spawnOut, rfl, hv⟩, I', Fr.ents, Fr.spawn, ?_, ?_, K⟩
  · rintro ⟨k, e⟩
    rw [I'.coh.1, I.coh.1]
    simp only [St.indexed, Fr.ents, Fr.spawn]
    by_cases he : e = s.spawn
    · subst he
      have := I'.spawnCls
      rw [Fr.spawn] at this
      rw [this, I.spawnCls]
    · simp [St.cls, K e he]
  · rintro ⟨k, e⟩
    rw [I'.coh.2, I.coh.2]
    simp only [St.indexed, Fr.ents, Fr.spawn]
    by_cases he : e = s.spawn
    · subst he
      have hK := setKey_keys_self_err (fold := fold) s I.spawnKnown key val Fix.all
        ((setKey_flag s s.spawn key val).mpr ⟨hk, I.spawnOut, rfl, hv⟩)
      have : (setKey Fix.all fold s s.spawn key val).1.nm fold s.spawn = s.nm fold s.spawn := by
        rw [nm_eq_lookup F, nm_eq_lookup F, hK, lookupF_putKey, lookupF_putKey, F.cls, hk]
        simp [kClass_ne_kTarget.symm]
      rw [this]
    · simp [St.nm, K e he]
end C07

namespace C07
variable {fold : Name → Name}

theorem adoptSpawn_eq (F : FoldOK fold) (s : St) (sid : Id) (h1 : sid ∉ s.ents) (hk : s.known sid) :
    adoptSpawn Fix.all fold s sid =
      { spawn := sid, ents := s.ents,
        objs := s.objs.set sid (putKey fold (s.keysOf sid) kClass kWorld),
        byClass := idxAdd (idxDel (idxDel s.byClass kWorld s.spawn) (fold (lookupF fold (s.keysOf sid) kClass)) sid) kWorld sid,
        byTarget := idxAdd (idxDel s.byTarget none s.spawn)
          (nameKey fold (lookupF fold (putKey fold (s.keysOf sid) kClass kWorld) kTarget)) sid } := by
  have e1 : St.keysOf { spawn := sid, ents := s.ents, objs := s.objs, byClass := idxDel s.byClass kWorld s.spawn, byTarget := idxDel s.byTarget none s.spawn } sid = s.keysOf sid := rfl
  have e2 := keysOf_withKeys hk (putKey fold (s.keysOf sid) kClass kWorld) sid
  simp only [↓reduceIte] at e2
  unfold adoptSpawn setKey
  simp only [Fix.all, ↓reduceIte, F.cls, findKey_getD, h1, F.world, ne_eq, not_true_eq_false, e1]
  have e3 : ∀ X : St, X.objs = s.objs.set sid (putKey fold (s.keysOf sid) kClass kWorld) →
      St.nm fold X sid = lookupF fold (putKey fold (s.keysOf sid) kClass kWorld) kTarget := by
    intro X hX
    rw [nm_eq_lookup F, ← e2]
    simp [St.keysOf, hX, St.withKeys]
  rw [e3 _ rfl]
  rfl

end C07

namespace C07
variable {fold : Name → Name}

theorem adoptSpawn_inv (F : FoldOK fold) {s : St} (I : Inv fold s) {sid : Id} (hk : s.known sid)
    (h1 : sid ∉ s.ents) (h2 : sid ≠ s.spawn) (h3 : nameKey fold (s.nm fold s.spawn) = none) :
    Inv fold (adoptSpawn Fix.all fold s sid) ∧ (adoptSpawn Fix.all fold s sid).objs.length = s.objs.length := by
  rw [adoptSpawn_eq F s sid h1 hk]
  have hni : ¬ s.indexed sid := by simp [St.indexed, h1, h2]
  have hK := keysOf_withKeys hk (putKey fold (s.keysOf sid) kClass kWorld)
  have hcls : ∀ x, St.cls fold (s.withKeys sid (putKey fold (s.keysOf sid) kClass kWorld)) x =
      if x = sid then kWorld else s.cls fold x := by
    intro x
    rw [cls_eq_lookup F, hK]
    split
    · rw [lookupF_putKey]; simp [F.cls]
    · rw [cls_eq_lookup F]
  have hnm : ∀ x, St.nm fold (s.withKeys sid (putKey fold (s.keysOf sid) kClass kWorld)) x = s.nm fold x := by
    intro x
    rw [nm_eq_lookup F, hK, nm_eq_lookup F]
    split
    · rename_i h; subst h; rw [lookupF_putKey]; simp [F.cls, kClass_ne_kTarget.symm]
    · rfl
  have hnoC : ∀ k, (k, sid) ∉ s.byClass := fun k h => hni ((I.coh.1 k sid).mp h).1
  have hnoT : ∀ k, (k, sid) ∉ s.byTarget := fun k h => hni ((I.coh.2 k sid).mp h).1
  refine ⟨⟨⟨?_, ?_⟩, ?_, ?_, ?_, ?_, ?_, ?_⟩, by simp⟩
  · intro k x
    show (k, x) ∈ idxAdd (idxDel (idxDel s.byClass kWorld s.spawn) _ sid) kWorld sid ↔
      (x ∈ s.ents ∨ x = sid) ∧ fold (St.cls fold (s.withKeys sid (putKey fold (s.keysOf sid) kClass kWorld)) x) = k
    rw [hcls, mem_idxAdd, mem_idxDel, mem_idxDel]
    by_cases hx : x = sid
    · subst hx
      simp [hnoC, F.world, eq_comm]
    · simp only [hx, ↓reduceIte, or_false, ne_eq, Prod.mk.injEq, and_false, not_false_eq_true, and_true]
      rw [I.coh.1 k x]
      by_cases hx2 : x = s.spawn
      · subst hx2
        simp [St.indexed, I.spawnOut, I.spawnCls, eq_comm]
      · simp [St.indexed, hx2]
  · intro k x
    show (k, x) ∈ idxAdd (idxDel s.byTarget none s.spawn) _ sid ↔
      (x ∈ s.ents ∨ x = sid) ∧ nameKey fold (St.nm fold (s.withKeys sid (putKey fold (s.keysOf sid) kClass kWorld)) x) = k
    rw [hnm, mem_idxAdd, mem_idxDel]
    have : lookupF fold (putKey fold (s.keysOf sid) kClass kWorld) kTarget = s.nm fold sid := by
      rw [lookupF_putKey, nm_eq_lookup F]; simp [F.cls, kClass_ne_kTarget.symm]
    rw [this]
    by_cases hx : x = sid
    · subst hx
      simp [hnoT, eq_comm]
    · simp only [hx, ne_eq, Prod.mk.injEq, and_false, or_false]
      rw [I.coh.2 k x]
      by_cases hx2 : x = s.spawn
      · subst hx2
        simp [St.indexed, I.spawnOut, h3, eq_comm]
      · simp [St.indexed, hx2]
  · exact I.nodup
  · exact h1
  · show fold (St.cls fold (s.withKeys sid (putKey fold (s.keysOf sid) kClass kWorld)) sid) = kWorld
    rw [hcls]; simp [F.world]
  · intro x
    show KeysOK fold ((s.withKeys sid (putKey fold (s.keysOf sid) kClass kWorld)).keysOf x)
    rw [hK]
    split
    · exact KeysOK_putKey (I.keysOK sid) _ _
    · exact I.keysOK x
  · show sid < (s.objs.set sid _).length
    simpa [St.known] using hk
  · intro x hx
    show x < (s.objs.set sid _).length
    have := I.entsKnown x hx
    simpa [St.known] using this

theorem parseEnt_inv (F : FoldOK fold) {s : St} (I : Inv fold s) (kvs : KVs) :
    Inv fold (parseEnt Fix.all fold s kvs) := by
  unfold parseEnt
  have := construct_inv F I kvs
  generalize construct Fix.all fold s kvs = r at this
  obtain ⟨s1, e⟩ := r
  obtain ⟨I1, C⟩ := this
  simp only at I1 C ⊢
  have hne : e ∉ s1.ents := by
    rw [C.ents]; intro h
    have := I.entsKnown e h
    unfold St.known at this; rw [C.new] at this; exact Nat.lt_irrefl _ this
  have hns : e ≠ s1.spawn := by
    rw [C.spawn]; intro h
    have := I.spawnKnown
    unfold St.known at this; rw [← h, C.new] at this; exact Nat.lt_irrefl _ this
  exact addEnt_inv I1 C.knownNew hne hns

theorem parse_inv (F : FoldOK fold) (spawnKvs : KVs) (ents : List KVs) :
    Inv fold (parse Fix.all fold spawnKvs ents) := by
  unfold parse
  have I0 := init_inv F
  have hsp0 : (init Fix.all fold).spawn = 0 := by rw [init_eq F]
  have hnm0 : nameKey fold ((init Fix.all fold).nm fold 0) = none := by
    rw [init_eq F]
    simp [St.nm, St.keysOf, getVal, lookupF, F.tgt, F.cls, kClass_ne_kTarget, nameKey, F.nil]
  have hlen0 : (init Fix.all fold).objs.length = 1 := by rw [init_eq F]; rfl
  have := construct_inv F I0 spawnKvs
  generalize construct Fix.all fold (init Fix.all fold) spawnKvs = r at this
  obtain ⟨s1, sid⟩ := r
  obtain ⟨I1, C⟩ := this
  simp only at I1 C ⊢
  have hsid : sid = 1 := by rw [C.new, hlen0]
  have hne : sid ∉ s1.ents := by
    rw [C.ents]; intro h
    have := I0.entsKnown sid h
    unfold St.known at this; rw [C.new] at this; exact Nat.lt_irrefl _ this
  have hns : sid ≠ s1.spawn := by rw [C.spawn, hsp0, hsid]; decide
  have hnm : nameKey fold (s1.nm fold s1.spawn) = none := by
    rw [C.spawn, hsp0]
    have : s1.keysOf 0 = (init Fix.all fold).keysOf 0 := C.keys 0 (by rw [hsid]; decide)
    simp only [St.nm, this]
    exact hnm0
  have IA := (adoptSpawn_inv F I1 C.knownNew hne hns hnm).1
  generalize adoptSpawn Fix.all fold s1 sid = s2 at IA
  clear hnm hns hne hsid C I1
  induction ents generalizing s2 with
  | nil => exact IA
  | cons kv t ih => exact ih _ (parseEnt_inv F IA kv)

/-! ## two maps -/
def WInv (fold : Name → Name) (w : World) : Prop := Inv fold w.a ∧ Inv fold w.b

def WValid (w : World) : WOp → Prop
  | .on m op => Valid (w.get m) op
  | .copyAcross _ _ => True
  | .parse _ _ _ => True

theorem World.get_put (w : World) (m : Bool) (s : St) : (w.put m s).get m = s := by
  cases m <;> rfl
theorem World.get_put_ne (w : World) (m : Bool) (s : St) : (w.put m s).get (!m) = w.get (!m) := by
  cases m <;> rfl

theorem winv_put {w : World} (h : WInv fold w) (m : Bool) {s : St} (hs : Inv fold s) : WInv fold (w.put m s) := by
  cases m
  · exact ⟨hs, h.2⟩
  · exact ⟨h.1, hs⟩

theorem winv_get {w : World} (h : WInv fold w) (m : Bool) : Inv fold (w.get m) := by
  cases m
  · exact h.1
  · exact h.2

theorem wstep_inv (F : FoldOK fold) {w : World} (h : WInv fold w) (op : WOp) (hv : WValid w op) :
    WInv fold (wstep Fix.all fold w op).1 := by
  cases op with
  | on m op => exact winv_put h m (step_inv F (winv_get h m) op hv)
  | copyAcross m e => exact winv_put h (!m) (construct_inv F (winv_get h (!m)) _).1
  | parse m sk es => exact winv_put h m (parse_inv F sk es)

def WValidFrom (fold : Name → Name) (w : World) : List WOp → Prop
  | [] => True
  | op :: r => WValid w op ∧ WValidFrom fold (wstep Fix.all fold w op).1 r

theorem wrun_inv (F : FoldOK fold) (ops : List WOp) {w : World} (h : WInv fold w) (hv : WValidFrom fold w ops) :
    WInv fold (wrun Fix.all fold w ops) := by
  induction ops generalizing w with
  | nil => exact h
  | cons op r ih => exact ih (wstep_inv F h op hv.1) hv.2

end C07

namespace C07

/-! ## a Boolean refutation test for `Coherent` (used for the as-found counter-examples) -/
def coherentB (fold : Name → Name) (s : St) : Bool :=
  s.byClass.all (fun p => decide (s.indexed p.2) && decide (fold (s.cls fold p.2) = p.1)) &&
  s.byTarget.all (fun p => decide (s.indexed p.2) && decide (nameKey fold (s.nm fold p.2) = p.1)) &&
  (s.spawn :: s.ents).all (fun e => decide ((fold (s.cls fold e), e) ∈ s.byClass) &&
    decide ((nameKey fold (s.nm fold e), e) ∈ s.byTarget))

theorem coherentB_of_coherent {fold : Name → Name} {s : St} (C : Coherent fold s) : coherentB fold s = true := by
  unfold coherentB
  simp only [Bool.and_eq_true, List.all_eq_true, decide_eq_true_eq]
  refine ⟨⟨?_, ?_⟩, ?_⟩
  · rintro ⟨k, e⟩ h; exact (C.1 k e).mp h
  · rintro ⟨k, e⟩ h; exact (C.2 k e).mp h
  · intro e he
    have hi : s.indexed e := by
      simp only [List.mem_cons] at he
      rcases he with h | h
      · exact Or.inr h
      · exact Or.inl h
    exact ⟨(C.1 _ e).mpr ⟨hi, rfl⟩, (C.2 _ e).mpr ⟨hi, rfl⟩⟩

/-! ## ASCII lower-casing satisfies `FoldOK` (non-vacuity of the hypotheses) -/
theorem lookup_mem (l : List (Char × Char)) (c d : Char) (h : l.lookup c = some d) : (c, d) ∈ l := by
  induction l with
  | nil => simp [List.lookup] at h
  | cons p t ih =>
    obtain ⟨a, b⟩ := p
    simp only [List.lookup] at h
    split at h
    · rename_i hb
      have : c = a := by simpa using hb
      cases h; subst this; simp
    · exact List.mem_cons_of_mem _ (ih h)

theorem lowerChar_idem (c : Char) : lowerChar (lowerChar c) = lowerChar c := by
  unfold lowerChar
  cases h : lowerTbl.lookup c with
  | none => simp [h]
  | some d =>
    simp only [Option.getD_some]
    have : ∀ p ∈ lowerTbl, lowerTbl.lookup p.2 = none := by decide
    have hm : (c, d) ∈ lowerTbl := lookup_mem _ _ _ h
    rw [this (c, d) hm]; rfl

theorem asciiFold_ok : FoldOK asciiFold where
  idem := by intro s; simp [asciiFold, lowerChar_idem]
  cls := by decide
  tgt := by decide
  world := by decide
  nil := rfl

end C07
