import Srctools.Proofs.C04
import Mathlib.Tactic.FieldSimp
import Mathlib.Tactic.Linarith
import Mathlib.Tactic.FinCases
import Mathlib.Data.Fintype.Basic
import Mathlib.Algebra.Order.Field.Basic
import Mathlib.Algebra.Order.AbsoluteValue.Basic
/-! C04: `_to_angle ∘ from_angle` and the Gauss-Jordan `inverse()` (helper lemmas). -/
set_option linter.unusedSimpArgs false
set_option linter.unusedSectionVars false

namespace C04

/-! ## to_angle / from_angle -/

theorem fromAngle_toAngle_general {K : Type} [Field K] (M : Mat K) (hM : IsRotation M) (h : K)
    (hh : h * h = M.aa * M.aa + M.ab * M.ab) (h0 : h ≠ 0) :
    fromAngle ⟨h, -M.ac, M.aa / h, M.ab / h, M.cc / h, M.bc / h⟩ = M := by
  have f := hM.facts
  obtain ⟨r11, r22, r33, r12, r13, r23, caa, cab, cac, cba, cbb, cbc, cca, ccb, ccc,
    c11, c22, c33, c12, c13, c23⟩ := f
  apply Mat.ext' <;> simp only [fromAngle] <;> field_simp <;> grind

variable {K : Type} [Field K] [LinearOrder K] [IsStrictOrderedRing K]

/-! ## Gauss-Jordan -/

theorem V3.get_sub (a b : V3 K) (j : Fin 3) : (a.sub b).get j = a.get j - b.get j := by
  fin_cases j <;> rfl
theorem V3.get_smul (a : V3 K) (k : K) (j : Fin 3) : (a.smul k).get j = a.get j * k := by
  fin_cases j <;> rfl
theorem V3.get_sdiv (a : V3 K) (k : K) (j : Fin 3) : (a.sdiv k).get j = a.get j / k := by
  fin_cases j <;> rfl

theorem vecRot_sub_smul (a b : V3 K) (v : K) (M : Mat K) :
    vecRot (a.sub (b.smul v)) M = (vecRot a M).sub ((vecRot b M).smul v) := by
  apply V3.ext' <;> simp only [vecRot, V3.sub, V3.smul] <;> ring

theorem vecRot_sdiv (a : V3 K) (v : K) (M : Mat K) : vecRot (a.sdiv v) M = (vecRot a M).sdiv v := by
  apply V3.ext' <;> simp only [vecRot, V3.sdiv] <;> ring

/-- The invariant of the augmented matrix `[L | R]`: `R · M = L`, row by row. -/
def Inv (M : Mat K) (s : Aug K) : Prop := ∀ k, vecRot (s.r k) M = s.l k

theorem inv_init (M : Mat K) : Inv M ⟨rowsOf M, rowsOf Mat.one⟩ := by
  intro k
  fin_cases k <;> apply V3.ext' <;> simp [vecRot, rowsOf, Mat.one]

theorem Rows.set_same (r : Rows K) (i : Fin 3) (v : V3 K) : r.set i v i = v := by simp [Rows.set]
theorem Rows.set_other (r : Rows K) {i k : Fin 3} (v : V3 K) (h : k ≠ i) : r.set i v k = r k := by
  simp [Rows.set, h]

theorem inv_swap {M : Mat K} {s : Aug K} (h : Inv M s) (i j : Fin 3) :
    Inv M ⟨s.l.swap i j, s.r.swap i j⟩ := by
  intro k
  simp only [Rows.swap]
  split_ifs <;> apply h

theorem absv_zero : absv (0 : K) = 0 := by simp [absv]

theorem ne_zero_of_lt_absv {e x : K} (he : 0 ≤ e) (h : e < absv x) : x ≠ 0 := by
  intro hx
  rw [hx, absv_zero] at h
  exact absurd h (not_lt.mpr he)

theorem pivotSearch_mem (l : Rows K) (n : Fin 3) :
    ∀ (rows : List (Fin 3)) (la : K) (piv : Option (Fin 3)) (p : Fin 3),
      pivotSearch l n rows la piv = some p → p ∈ rows ∨ piv = some p := by
  intro rows
  induction rows with
  | nil => intro la piv p h; right; simpa [pivotSearch] using h
  | cons m ms ih =>
    intro la piv p h
    simp only [pivotSearch] at h
    split_ifs at h
    · rcases ih _ _ _ h with h' | h'
      · left; exact List.mem_cons_of_mem _ h'
      · left; simp only [Option.some.injEq] at h'; simp [h']
    · rcases ih _ _ _ h with h' | h'
      · left; exact List.mem_cons_of_mem _ h'
      · right; exact h'

/-- What one elimination `l[m] -= l[p] * (l[m][n] / l[p][n])` does. -/
theorem elim_spec {M : Mat K} {s s' : Aug K} {m p n : Fin 3} (h : elim s m p n = some s') :
    (Inv M s → Inv M s') ∧
    (∀ k, k ≠ m → s'.l k = s.l k) ∧
    (∀ j, (s'.l m).get j = (s.l m).get j - (s.l p).get j * ((s.l m).get n / (s.l p).get n)) ∧
    (s.l p).get n ≠ 0 := by
  unfold elim at h
  split_ifs at h with h0
  simp only [Option.some.injEq] at h
  subst h
  refine ⟨?_, ?_, ?_, h0⟩
  · intro hi k
    have hi' : ∀ k, vecRot (s.r k) M = s.l k := hi
    by_cases hk : k = m
    · subst hk
      simp only [Rows.set_same, vecRot_sub_smul, hi']
    · simp only [Rows.set_other _ _ hk, hi' k]
  · intro k hk
    simp only [Rows.set_other _ _ hk]
  · intro j
    simp only [Rows.set_same, V3.get_sub, V3.get_smul]

/-- The eliminated entry becomes zero. -/
theorem elim_zero {s s' : Aug K} {m p n : Fin 3} (h : elim s m p n = some s') :
    (s'.l m).get n = 0 := by
  obtain ⟨-, -, h3, h4⟩ := elim_spec (M := Mat.one) h
  rw [h3 n]
  field_simp
  ring

/-- An entry that is zero in both rows stays zero. -/
theorem elim_keep {s s' : Aug K} {m p n : Fin 3} (h : elim s m p n = some s') (j : Fin 3)
    (hm : (s.l m).get j = 0) (hp : (s.l p).get j = 0) : (s'.l m).get j = 0 := by
  obtain ⟨-, -, h3, -⟩ := elim_spec (M := Mat.one) h
  rw [h3 j, hm, hp]; ring

theorem elim_other {s s' : Aug K} {m p n : Fin 3} (h : elim s m p n = some s') {k : Fin 3}
    (hk : k ≠ m) : s'.l k = s.l k :=
  (elim_spec (M := Mat.one) h).2.1 k hk

theorem elim_inv {M : Mat K} {s s' : Aug K} {m p n : Fin 3} (h : elim s m p n = some s')
    (hi : Inv M s) : Inv M s' := (elim_spec h).1 hi

theorem elimAll_two {s s' : Aug K} {p n a b : Fin 3} (h : elimAll s p n [a, b] = some s') :
    ∃ s1, elim s a p n = some s1 ∧ elim s1 b p n = some s' := by
  simp only [elimAll] at h
  cases h1 : elim s a p n with
  | none => simp [h1] at h
  | some s1 =>
    simp only [h1] at h
    cases h2 : elim s1 b p n with
    | none => simp [h2] at h
    | some s2 => simp only [h2, Option.some.injEq] at h; exact ⟨s1, rfl, h ▸ h2⟩

theorem elimAll_one {s s' : Aug K} {p n a : Fin 3} (h : elimAll s p n [a] = some s') :
    elim s a p n = some s' := by
  simp only [elimAll] at h
  cases h1 : elim s a p n with
  | none => simp [h1] at h
  | some s1 => simp only [h1, Option.some.injEq] at h; exact h ▸ rfl

/-- Entry `(i, j)` of the left block. -/
def E (s : Aug K) (i j : Fin 3) : K := (s.l i).get j

/-- First forward step: column 0 is cleared below the diagonal. -/
theorem fwd0_spec {M : Mat K} {s s' : Aug K} (h : fwdStep s 0 [0, 1, 2] [1, 2] = some s')
    (hi : Inv M s) : Inv M s' ∧ E s' 1 0 = 0 ∧ E s' 2 0 = 0 := by
  unfold fwdStep at h
  cases hp : pivotSearch s.l 0 [0, 1, 2] 0 none with
  | none => simp [hp] at h
  | some p =>
    simp only [hp] at h
    have hi0 : Inv M (if p = 0 then s else ⟨s.l.swap 0 p, s.r.swap 0 p⟩) := by
      split_ifs
      · exact hi
      · exact inv_swap hi 0 p
    obtain ⟨s1, h1, h2⟩ := elimAll_two h
    refine ⟨elim_inv h2 (elim_inv h1 hi0), ?_, elim_zero h2⟩
    have : s'.l 1 = s1.l 1 := elim_other h2 (by decide)
    simp only [E, this]
    exact elim_zero h1

/-- Second forward step: column 1 is cleared below the diagonal, column 0 stays cleared. -/
theorem fwd1_spec {M : Mat K} {s s' : Aug K} (h : fwdStep s 1 [1, 2] [2] = some s')
    (hi : Inv M s) (z10 : E s 1 0 = 0) (z20 : E s 2 0 = 0) :
    Inv M s' ∧ E s' 1 0 = 0 ∧ E s' 2 0 = 0 ∧ E s' 2 1 = 0 := by
  unfold fwdStep at h
  cases hp : pivotSearch s.l 1 [1, 2] 0 none with
  | none => simp [hp] at h
  | some p =>
    simp only [hp] at h
    have hmem : p = 1 ∨ p = 2 := by
      rcases pivotSearch_mem _ _ _ _ _ _ hp with h' | h'
      · simpa using h'
      · simp at h'
    have key : Inv M (if p = 1 then s else ⟨s.l.swap 1 p, s.r.swap 1 p⟩) ∧
        E (if p = 1 then s else ⟨s.l.swap 1 p, s.r.swap 1 p⟩) 1 0 = 0 ∧
        E (if p = 1 then s else ⟨s.l.swap 1 p, s.r.swap 1 p⟩) 2 0 = 0 := by
      rcases hmem with rfl | rfl
      · simp only [if_true]; exact ⟨hi, z10, z20⟩
      · refine ⟨?_, ?_, ?_⟩
        · simp only [show ¬ ((2 : Fin 3) = 1) by decide, if_false]; exact inv_swap hi 1 2
        · simp only [show ¬ ((2 : Fin 3) = 1) by decide, if_false, E, Rows.swap, if_true]; exact z20
        · simp only [show ¬ ((2 : Fin 3) = 1) by decide, if_false, E, Rows.swap, if_true]; exact z10
    obtain ⟨hi0, y10, y20⟩ := key
    have h1 := elimAll_one h
    refine ⟨elim_inv h1 hi0, ?_, elim_keep h1 0 y20 y10, elim_zero h1⟩
    have : s'.l 1 = _ := elim_other h1 (show (1 : Fin 3) ≠ 2 by decide)
    simp only [E, this]; exact y10

/-- Back-substitution with row 2. -/
theorem back2_spec {M : Mat K} {s s' : Aug K} (h : elimAll s 2 2 [1, 0] = some s')
    (hi : Inv M s) (z10 : E s 1 0 = 0) (z20 : E s 2 0 = 0) (z21 : E s 2 1 = 0) :
    Inv M s' ∧ E s' 1 0 = 0 ∧ E s' 2 0 = 0 ∧ E s' 2 1 = 0 ∧ E s' 1 2 = 0 ∧ E s' 0 2 = 0 := by
  obtain ⟨s1, h1, h2⟩ := elimAll_two h
  have r1 : s'.l 1 = s1.l 1 := elim_other h2 (by decide)
  have r2 : s'.l 2 = s1.l 2 := elim_other h2 (by decide)
  have r2' : s1.l 2 = s.l 2 := elim_other h1 (by decide)
  refine ⟨elim_inv h2 (elim_inv h1 hi), ?_, ?_, ?_, ?_, elim_zero h2⟩
  · simp only [E, r1]; exact elim_keep h1 0 z10 z20
  · simp only [E, r2, r2']; exact z20
  · simp only [E, r2, r2']; exact z21
  · simp only [E, r1]; exact elim_zero h1

/-- Back-substitution with row 1. -/
theorem back1_spec {M : Mat K} {s s' : Aug K} (h : elimAll s 1 1 [0] = some s')
    (hi : Inv M s) (z10 : E s 1 0 = 0) (z20 : E s 2 0 = 0) (z21 : E s 2 1 = 0)
    (z12 : E s 1 2 = 0) (z02 : E s 0 2 = 0) :
    Inv M s' ∧ E s' 1 0 = 0 ∧ E s' 2 0 = 0 ∧ E s' 2 1 = 0 ∧ E s' 1 2 = 0 ∧ E s' 0 2 = 0 ∧
      E s' 0 1 = 0 := by
  have h1 := elimAll_one h
  have r1 : s'.l 1 = s.l 1 := elim_other h1 (by decide)
  have r2 : s'.l 2 = s.l 2 := elim_other h1 (by decide)
  refine ⟨elim_inv h1 hi, ?_, ?_, ?_, ?_, elim_keep h1 2 z02 z12, elim_zero h1⟩
  · simp only [E, r1]; exact z10
  · simp only [E, r2]; exact z20
  · simp only [E, r2]; exact z21
  · simp only [E, r1]; exact z12

/-- One diagonal normalisation. -/
theorem diag_spec {M : Mat K} {eps : K} (he : 0 ≤ eps) {s s' : Aug K} {n : Fin 3}
    (h : diagStep eps s n = some s') (hi : Inv M s) :
    Inv M s' ∧ (∀ k, k ≠ n → s'.l k = s.l k) ∧ E s' n n = 1 ∧
      (∀ j, E s n j = 0 → E s' n j = 0) := by
  unfold diagStep at h
  simp only at h
  split_ifs at h with hv
  have hne := ne_zero_of_lt_absv he hv
  simp only [Option.some.injEq] at h
  subst h
  refine ⟨?_, ?_, ?_, ?_⟩
  · intro k
    have hi' : ∀ k, vecRot (s.r k) M = s.l k := hi
    by_cases hk : k = n
    · subst hk; simp only [Rows.set_same, vecRot_sdiv, hi']
    · simp only [Rows.set_other _ _ hk, hi' k]
  · intro k hk; simp only [Rows.set_other _ _ hk]
  · simp only [E, Rows.set_same, V3.get_sdiv]; exact div_self hne
  · intro j hj
    simp only [E] at hj
    simp only [E, Rows.set_same, V3.get_sdiv, hj, zero_div]

theorem gaussJordan_spec {M : Mat K} {eps : K} (he : 0 ≤ eps) {s : Aug K}
    (h : gaussJordan eps M = some s) :
    Inv M s ∧ ∀ i j, E s i j = if i = j then 1 else 0 := by
  simp only [gaussJordan, Option.bind_eq_bind, Option.bind_eq_some_iff] at h
  obtain ⟨s1, h1, s2, h2, s3, h3, s4, h4, s5, h5, s6, h6, h⟩ := h
  obtain ⟨i1, a10, a20⟩ := fwd0_spec h1 (inv_init M)
  obtain ⟨i2, b10, b20, b21⟩ := fwd1_spec h2 i1 a10 a20
  obtain ⟨i3, c10, c20, c21, c12, c02⟩ := back2_spec h3 i2 b10 b20 b21
  obtain ⟨i4, d10, d20, d21, d12, d02, d01⟩ := back1_spec h4 i3 c10 c20 c21 c12 c02
  obtain ⟨i5, o5, e00, k5⟩ := diag_spec he h5 i4
  obtain ⟨i6, o6, e11, k6⟩ := diag_spec he h6 i5
  obtain ⟨i7, o7, e22, k7⟩ := diag_spec he h i6
  refine ⟨i7, ?_⟩
  have r0 : s.l 0 = s5.l 0 := by rw [o7 0 (by decide), o6 0 (by decide)]
  have r1 : s.l 1 = s6.l 1 := o7 1 (by decide)
  have q1 : s5.l 1 = s4.l 1 := o5 1 (by decide)
  have q2 : s6.l 2 = s4.l 2 := by rw [o6 2 (by decide), o5 2 (by decide)]
  intro i j
  fin_cases i <;> fin_cases j <;> simp only [E] at * <;> simp
  · rw [r0]; exact e00
  · rw [r0]; exact k5 1 d01
  · rw [r0]; exact k5 2 d02
  · rw [r1]; exact k6 0 (by simp only [E, q1]; exact d10)
  · rw [r1]; exact e11
  · rw [r1]; exact k6 2 (by simp only [E, q1]; exact d12)
  · exact k7 0 (by simp only [E, q2]; exact d20)
  · exact k7 1 (by simp only [E, q2]; exact d21)
  · exact e22

/-- **The Gauss-Jordan result is a left inverse.** -/
theorem gaussJordanInverse_mul {M N : Mat K} {eps : K} (he : 0 ≤ eps)
    (h : gaussJordanInverse eps M = some N) : matMul N M = Mat.one := by
  unfold gaussJordanInverse at h
  cases hs : gaussJordan eps M with
  | none => simp [hs] at h
  | some s =>
    simp only [hs, Option.map_some, Option.some.injEq] at h
    subst h
    obtain ⟨hi, hE⟩ := gaussJordan_spec he hs
    have e0 := hi 0
    have e1 := hi 1
    have e2 := hi 2
    have g := fun i j => hE i j
    simp only [E] at g
    have x0 := congrArg (fun v => v.get 0) e0
    have y0 := congrArg (fun v => v.get 1) e0
    have z0 := congrArg (fun v => v.get 2) e0
    have x1 := congrArg (fun v => v.get 0) e1
    have y1 := congrArg (fun v => v.get 1) e1
    have z1 := congrArg (fun v => v.get 2) e1
    have x2 := congrArg (fun v => v.get 0) e2
    have y2 := congrArg (fun v => v.get 1) e2
    have z2 := congrArg (fun v => v.get 2) e2
    simp only [g] at x0 y0 z0 x1 y1 z1 x2 y2 z2
    simp only [vecRot, V3.get] at x0 y0 z0 x1 y1 z1 x2 y2 z2
    apply Mat.ext' <;> simp only [matMul, matOfRows, Mat.one]
    · simpa using x0
    · simpa using y0
    · simpa using z0
    · simpa using x1
    · simpa using y1
    · simpa using z1
    · simpa using x2
    · simpa using y2
    · simpa using z2

/-! ## Gimbal lock: the error of `from_angle ∘ to_angle` is at most twice the horizontal length -/

theorem abs_le_of_mul_self_le {x h : K} (hx : x * x ≤ h * h) (h0 : 0 ≤ h) : |x| ≤ h := by
  rw [abs_le]; constructor <;> nlinarith

theorem abs_mul_le {x y X Y : K} (hx : |x| ≤ X) (hy : |y| ≤ Y) : |x * y| ≤ X * Y := by
  rw [abs_mul]
  exact mul_le_mul hx hy (abs_nonneg y) (le_trans (abs_nonneg x) hx)

/-- scalar core of the gimbal bound -/
theorem gimbal_core (aa ab ac ba bb bc ca cb cc h rg c s : K)
    (r11 : aa * aa + ab * ab + ac * ac = 1) (r22 : ba * ba + bb * bb + bc * bc = 1)
    (c33 : ac * ac + bc * bc + cc * cc = 1)
    (cca : ca = ab * bc - ac * bb) (ccb : cb = ac * ba - aa * bc)
    (hh : h * h = aa * aa + ab * ab) (h0 : 0 ≤ h) (h1 : h ≤ 1)
    (hg : rg * rg = ba * ba + bb * bb) (hg0 : 0 ≤ rg)
    (hc : c * rg = bb) (hs : s * rg = -ba) (hcs : c * c + s * s = 1) :
    |h * c - aa| ≤ 2 * h ∧ |h * s - ab| ≤ 2 * h ∧ |-s - ba| ≤ 2 * h ∧ |c - bb| ≤ 2 * h ∧ |0 - bc| ≤ 2 * h
    ∧ |-ac * c - ca| ≤ 2 * h ∧ |-ac * s - cb| ≤ 2 * h ∧ |h - cc| ≤ 2 * h := by
  have f1 : bc * bc + cc * cc = h * h := by rw [hh]; linear_combination c33 - r11
  have haa : |aa| ≤ h := abs_le_of_mul_self_le (by rw [hh]; linarith [mul_self_nonneg ab]) h0
  have hab : |ab| ≤ h := abs_le_of_mul_self_le (by rw [hh]; linarith [mul_self_nonneg aa]) h0
  have hbc : |bc| ≤ h := abs_le_of_mul_self_le (by rw [← f1]; linarith [mul_self_nonneg cc]) h0
  have hcc : |cc| ≤ h := abs_le_of_mul_self_le (by rw [← f1]; linarith [mul_self_nonneg bc]) h0
  have hc1 : |c| ≤ 1 := abs_le_of_mul_self_le (by linarith [mul_self_nonneg s]) zero_le_one
  have hs1 : |s| ≤ 1 := abs_le_of_mul_self_le (by linarith [mul_self_nonneg c]) zero_le_one
  have hac : |ac| ≤ 1 := abs_le_of_mul_self_le (by linarith [mul_self_nonneg aa, mul_self_nonneg ab]) zero_le_one
  have hhabs : |h| = h := abs_of_nonneg h0
  have hrg2 : rg * rg = 1 - bc * bc := by rw [hg]; linear_combination r22
  have hrg1 : rg ≤ 1 := by
    by_contra hcon
    have : 1 < rg := not_le.mp hcon
    nlinarith [mul_self_nonneg bc]
  have hhh : h * h ≤ h := by nlinarith
  have hd0 : 0 ≤ 1 - rg := by linarith
  have hd2 : 1 - rg ≤ h * h := by
    have hbb : bc * bc ≤ h * h := by rw [← f1]; linarith [mul_self_nonneg cc]
    have : (1 - rg) * (1 + rg) = bc * bc := by linear_combination -hrg2
    nlinarith [mul_nonneg hd0 hg0]
  have hdabs : |1 - rg| ≤ h * h := by rw [abs_of_nonneg hd0]; exact hd2
  have t1 : |h * c| ≤ h * 1 := abs_mul_le (le_of_eq hhabs) hc1
  have t2 : |h * s| ≤ h * 1 := abs_mul_le (le_of_eq hhabs) hs1
  refine ⟨?_, ?_, ?_, ?_, ?_, ?_, ?_, ?_⟩
  · calc |h * c - aa| ≤ |h * c| + |aa| := abs_sub _ _
      _ ≤ 2 * h := by linarith
  · calc |h * s - ab| ≤ |h * s| + |ab| := abs_sub _ _
      _ ≤ 2 * h := by linarith
  · have e : -s - ba = -(s * (1 - rg)) := by linear_combination -hs
    have := abs_mul_le hs1 hdabs
    rw [e, abs_neg]; linarith
  · have e : c - bb = c * (1 - rg) := by linear_combination hc
    have := abs_mul_le hc1 hdabs
    rw [e]; linarith
  · rw [zero_sub, abs_neg]; linarith
  · have e : -ac * c - ca = -((ac * c) * (1 - rg)) - ab * bc := by rw [cca, ← hc]; ring
    have p1 := abs_mul_le (abs_mul_le hac hc1) hdabs
    have p2 := abs_mul_le hab hbc
    calc |-ac * c - ca| = |-((ac * c) * (1 - rg)) - ab * bc| := by rw [e]
      _ ≤ |-((ac * c) * (1 - rg))| + |ab * bc| := abs_sub _ _
      _ ≤ 2 * h := by rw [abs_neg]; linarith
  · have e : -ac * s - cb = -((ac * s) * (1 - rg)) - (-(aa * bc)) := by
      rw [ccb]; linear_combination (-ac) * hs
    have p1 := abs_mul_le (abs_mul_le hac hs1) hdabs
    have p2 := abs_mul_le haa hbc
    calc |-ac * s - cb| = |-((ac * s) * (1 - rg)) - (-(aa * bc))| := by rw [e]
      _ ≤ |-((ac * s) * (1 - rg))| + |-(aa * bc)| := abs_sub _ _
      _ ≤ 2 * h := by rw [abs_neg, abs_neg]; linarith
  · calc |h - cc| ≤ |h| + |cc| := abs_sub _ _
      _ ≤ 2 * h := by rw [hhabs]; linarith

/-- Every entry of `N` is within `b` of the corresponding entry of `M`. -/
def Mat.Within (N M : Mat K) (b : K) : Prop :=
  |N.aa - M.aa| ≤ b ∧ |N.ab - M.ab| ≤ b ∧ |N.ac - M.ac| ≤ b ∧
  |N.ba - M.ba| ≤ b ∧ |N.bb - M.bb| ≤ b ∧ |N.bc - M.bc| ≤ b ∧
  |N.ca - M.ca| ≤ b ∧ |N.cb - M.cb| ≤ b ∧ |N.cc - M.cc| ≤ b

theorem gimbal_bound (thr : K) (M : Mat K) (hM : IsRotation M) (r : Radii K)
    (hh : r.h * r.h = M.aa * M.aa + M.ab * M.ab)
    (hp : r.rp * r.rp = M.ac * M.ac + r.h * r.h)
    (hg : r.rg * r.rg = M.ba * M.ba + M.bb * M.bb)
    (h0 : 0 ≤ r.h) (hp0 : 0 ≤ r.rp) (hg0 : 0 ≤ r.rg)
    (hb : ¬ thr < r.h) (hthr1 : thr < 1) :
    (fromAngle (toAngle thr M r)).Within M (2 * r.h) := by
  have f := hM.facts
  have h1 : r.h < 1 := lt_of_le_of_lt (not_lt.mp hb) hthr1
  have hrp : r.rp = 1 := by
    have : r.rp * r.rp = 1 := by rw [hp, hh]; linear_combination f.r11
    nlinarith
  have f1 : M.bc * M.bc + M.cc * M.cc = r.h * r.h := by rw [hh]; linear_combination f.c33 - f.r11
  have hrg2 : r.rg * r.rg = 1 - M.bc * M.bc := by rw [hg]; linear_combination f.r22
  have hrgne : r.rg ≠ 0 := by
    intro hz
    rw [hz] at hrg2
    nlinarith [mul_self_nonneg M.cc]
  have hc : M.bb / r.rg * r.rg = M.bb := div_mul_cancel₀ _ hrgne
  have hs : -M.ba / r.rg * r.rg = -M.ba := div_mul_cancel₀ _ hrgne
  have hcs : M.bb / r.rg * (M.bb / r.rg) + -M.ba / r.rg * (-M.ba / r.rg) = 1 := by
    field_simp
    linear_combination -hg
  obtain ⟨g1, g2, g3, g4, g5, g6, g7, g8⟩ := gimbal_core M.aa M.ab M.ac M.ba M.bb M.bc M.ca M.cb M.cc
    r.h r.rg (M.bb / r.rg) (-M.ba / r.rg) f.r11 f.r22 f.c33 f.cca f.ccb hh h0 (le_of_lt h1) hg hg0 hc hs hcs
  simp only [toAngle, toAngleB, hb, if_false, atan2n, hrgne, hrp, one_ne_zero, div_one, fromAngle, Mat.Within]
  refine ⟨?_, ?_, ?_, ?_, ?_, ?_, ?_, ?_, ?_⟩
  · exact g1
  · exact g2
  · simp; linarith
  · convert g3 using 2; ring
  · convert g4 using 2; ring
  · convert g5 using 2; ring
  · convert g6 using 2; ring
  · convert g7 using 2; ring
  · convert g8 using 2; ring

end C04
