import Srctools.Proofs.Heap
import Srctools.Model.C09
/-!
# C09 helper lemmas

* `adequateB_of_table`   a table passing `tableOK` is adequate on every store that is well kinded for it
* `appendCopies_spec`     the loop `for kv in elems: target.append(kv.copy())`
* `kvAdd_pure`            `a + b` as coded with the copy as target
* `kvIAdd_spec`           `a += b` / `a.extend(b)`
-/
namespace C09
open Heap

/-! ## the static table implies dynamic adequacy -/

theorem slotOKB_of_kind {h : Store} {fs : FieldSpec} {s : Slot} (ok : okField fs = true)
    (hk : kindOKB h fs.kind s = true) : slotOKB h fs.treat.rt s = true := by
  obtain ⟨nm, kind, treat, note⟩ := fs
  cases kind <;> cases treat <;> cases s <;> simp [okField] at ok <;>
    first
    | rfl
    | exact hk
    | (simp only [GTreat.rt, slotOKB, kindOKB] at hk ⊢; exact hk)

theorem adequateB_of_table {T : Table} {h : Store} (ht : tableOK T = true)
    (hk : wellKindedB T h = true) : adequateB (Table.treat T) h = true := by
  unfold adequateB
  apply List.all_eq_true.mpr
  intro o ho
  have hko := List.all_eq_true.mp hk o ho
  cases hm : o.mu with
  | false => simp
  | true =>
    simp only [hm, Bool.not_true, Bool.false_or] at hko ⊢
    apply List.all_eq_true.mpr
    intro p hp
    cases hc : o.cls with
    | zero => simp [Table.treat, slotOKB]
    | succ c =>
      simp only [hc] at hko
      cases hT : T[c]? with
      | none => simp [Table.treat, hT, slotOKB]
      | some cs =>
        simp only [hT] at hko
        have hp' := List.all_eq_true.mp hko p hp
        cases hf : cs.fields[p.1]? with
        | none => simp [hf] at hp'
        | some fs =>
          simp only [hf] at hp'
          have okf : okField fs = true :=
            List.all_eq_true.mp (List.all_eq_true.mp ht cs (List.mem_of_getElem? hT)) fs
              (List.mem_of_getElem? hf)
          simp only [Table.treat, hT, hf]
          exact slotOKB_of_kind okf hp'

/-- A table passing `tableOK` is adequate on every store that is well kinded for it. -/
theorem adequate_of_table {T : Table} {h : Store} (ht : tableOK T = true)
    (hk : wellKindedB T h = true) : Adequate (Table.treat T) h :=
  adequate_of_adequateB (adequateB_of_table ht hk)

/-! ## list append -/

theorem pushBack_cases (h : Store) (r : Nat) (s : Slot) :
    pushBack h r s = h ∨
    ∃ o, h[r]? = some o ∧ o.mu = true ∧ slotValid h s = true ∧
      pushBack h r s = h.set r { o with fields := o.fields ++ [(o.fields.length, s)] } := by
  unfold pushBack
  cases e : h[r]? with
  | none => exact Or.inl rfl
  | some o =>
    simp only
    by_cases hc : (o.mu && slotValid h s) = true
    · rw [if_pos hc]
      have hm : o.mu = true := by cases hmu : o.mu <;> simp [hmu] at hc ⊢
      have hs : slotValid h s = true := by cases hsv : slotValid h s <;> simp [hsv] at hc ⊢
      exact Or.inr ⟨o, rfl, hm, hs, rfl⟩
    · rw [if_neg hc]
      exact Or.inl rfl

theorem pushBack_valid {h : Store} {r : Nat} {o : Obj} {s : Slot} (hc : Closed h) (e : h[r]? = some o)
    (hs : slotValid h s = true) : ∀ p ∈ o.fields ++ [(o.fields.length, s)], slotValid h p.2 = true := by
  intro p hp
  rcases List.mem_append.mp hp with h1 | h1
  · exact hc r o e p h1
  · simp at h1; subst h1; exact hs

theorem pushBack_confined {W : Nat → Prop} {h : Store} {r : Nat} (s : Slot) (hw : W r) (hc : Closed h) :
    Confined W h (pushBack h r s) := by
  rcases pushBack_cases h r s with e | ⟨o, e, hm, hs, e2⟩
  · rw [e]; exact Confined.refl W h
  · rw [e2]; exact confined_set e hw hm _ (pushBack_valid hc e hs)

theorem pushBack_wf {h : Store} (wf : WF h) (r : Nat) (s : Slot) : WF (pushBack h r s) := by
  rcases pushBack_cases h r s with e | ⟨o, e, hm, hs, e2⟩
  · rw [e]; exact wf
  · rw [e2]; exact wf.set e hm _ (pushBack_valid wf.closed e hs)

theorem pushBack_len (h : Store) (r : Nat) (s : Slot) : (pushBack h r s).length = h.length := by
  rcases pushBack_cases h r s with e | ⟨o, _, _, _, e2⟩
  · rw [e]
  · rw [e2]; simp

theorem pushBack_get_ne {h : Store} {r x : Nat} (s : Slot) (hne : x ≠ r) : (pushBack h r s)[x]? = h[x]? := by
  rcases pushBack_cases h r s with e | ⟨o, _, _, _, e2⟩
  · rw [e]
  · rw [e2, List.getElem?_set_ne (Ne.symm hne)]

theorem pushBack_get_self {h : Store} {r : Nat} {o : Obj} {s : Slot} (e : h[r]? = some o) (hm : o.mu = true)
    (hs : slotValid h s = true) :
    (pushBack h r s)[r]? = some { o with fields := o.fields ++ [(o.fields.length, s)] } := by
  unfold pushBack
  simp only [e, hm, hs, Bool.and_self, if_true]
  rw [List.getElem?_set_self (lt_of_get e)]

theorem listElems_pushBack {h : Store} {r : Nat} {o : Obj} {s : Slot} (e : h[r]? = some o) (hm : o.mu = true)
    (hs : slotValid h s = true) : listElems (pushBack h r s) r = listElems h r ++ [s] := by
  simp [listElems, pushBack_get_self e hm hs, e]

/-! ## keeping everything except one object -/

/-- Every object of `h` other than the one at `t` is still there, unchanged, in `h'`. -/
def KeepsExcept (t : Nat) (h h' : Store) : Prop :=
  ∀ (x : Nat) (o : Obj), x ≠ t → h[x]? = some o → h'[x]? = some o

theorem KeepsExcept.refl (t : Nat) (h : Store) : KeepsExcept t h h := fun _ _ _ e => e

theorem KeepsExcept.trans {t : Nat} {a b c : Store} (h1 : KeepsExcept t a b) (h2 : KeepsExcept t b c) :
    KeepsExcept t a c := fun x o hx e => h2 x o hx (h1 x o hx e)

theorem Keeps.except {h h' : Store} (k : Keeps h h') (t : Nat) : KeepsExcept t h h' :=
  fun x o _ e => k x o e

theorem pushBack_keepsExcept (h : Store) (t : Nat) (s : Slot) : KeepsExcept t h (pushBack h t s) :=
  fun x o hx e => by rw [pushBack_get_ne s hx]; exact e

/-- Objects from which `t` is not reachable see the same graph. -/
theorem reach_keepsExcept {t : Nat} {h h' : Store} (hc : Closed h) (ke : KeepsExcept t h h')
    {k x : Nat} (hk : k < h.length) (hun : ¬ Reach h k t) :
    (Reach h' k x ↔ Reach h k x) := by
  constructor
  · intro hr
    induction hr with
    | refl l => exact Reach.refl l
    | @step l0 o f r x0 e hm _ ih =>
      have hne : l0 ≠ t := fun hh => hun (hh ▸ Reach.refl l0)
      obtain ⟨o0, e0⟩ := get_of_lt hk
      have : h'[l0]? = some o0 := ke l0 o0 hne e0
      rw [e] at this
      cases this
      exact Reach.step e0 hm (ih (closed_ref hc e0 hm) (fun hh => hun (Reach.step e0 hm hh)))
  · intro hr
    induction hr with
    | refl l => exact Reach.refl l
    | @step l0 o f r x0 e hm _ ih =>
      have hne : l0 ≠ t := fun hh => hun (hh ▸ Reach.refl l0)
      exact Reach.step (ke l0 o hne e) hm
        (ih (closed_ref hc e hm) (fun hh => hun (Reach.step e hm hh)))

theorem abs_keepsExcept {t : Nat} {h h' : Store} (hc : Closed h) (ke : KeepsExcept t h h')
    {k : Nat} (hk : k < h.length) (hun : ¬ Reach h k t) (m : Nat) : abs m h' k = abs m h k := by
  apply abs_congr
  intro x hx
  have hne : x ≠ t := fun hh => hun (hh ▸ hx)
  obtain ⟨o, e⟩ := get_of_lt (reach_lt hc hk hx)
  rw [e]
  exact ke x o hne e

theorem adequateFrom_keepsExcept {tr : Nat → Nat → Treat} {t : Nat} {h h' : Store} (hc : Closed h)
    (ke : KeepsExcept t h h') (htm : ∀ o, h[t]? = some o → o.mu = true)
    {k : Nat} (hk : k < h.length) (hun : ¬ Reach h k t)
    (a : AdequateFrom tr h k) : AdequateFrom tr h' k := by
  intro x o hx e m p hp
  have hx0 : Reach h k x := (reach_keepsExcept hc ke hk hun).mp hx
  have hne : x ≠ t := fun hh => hun (hh ▸ hx0)
  obtain ⟨o0, e0⟩ := get_of_lt (reach_lt hc hk hx0)
  have : h'[x]? = some o0 := ke x o0 hne e0
  rw [e] at this
  cases this
  have ok := a x o hx0 e0 m p hp
  -- transfer the slot condition: every immutable object is different from `t`
  have immK : ∀ r, IsImm h r → IsImm h' r := by
    intro r ⟨o', e', m'⟩
    have : r ≠ t := by
      intro hh
      subst hh
      have := htm o' e'
      rw [this] at m'
      cases m'
    exact ⟨o', ke r o' this e', m'⟩
  have immS : ∀ s, ImmSlot h s → ImmSlot h' s := by
    intro s hs
    cases s with
    | val _ => trivial
    | ref r => exact immK r hs
  cases htr : tr o.cls p.1 with
  | deep => trivial
  | missing => rw [htr] at ok; exact ok.elim
  | keep => rw [htr] at ok; exact immS _ ok
  | shallow =>
    rw [htr] at ok
    obtain ⟨f, s⟩ := p
    cases s with
    | val _ => trivial
    | ref r =>
      obtain ⟨oc, ec, hall⟩ := ok
      have hrt : r ≠ t := fun hh => hun (hh ▸ reach_trans hx0 (Reach.step e0 hp (Reach.refl r)))
      exact ⟨oc, ke r oc hrt ec, fun q hq => immS _ (hall q hq)⟩

/-! ## the append loop -/

/-- `for kv in elems: target.append(kv.copy())` where the target list `t` is mutable and not
reachable from the elements. Everything other than `t` that existed before is unchanged, the
store stays well formed, and `t` gains exactly one new element per source element, each with the
abstraction of its source. `h0` is the store in which the elements are described. -/
theorem appendCopies_spec {tr : Nat → Nat → Treat} {n : Nat} {h0 : Store} (wf0 : WF h0) {t : Nat}
    (htm0 : ∀ o, h0[t]? = some o → o.mu = true) :
    ∀ (elems : List Slot) (h h2 : Store),
      WF h → KeepsExcept t h0 h → h0.length ≤ h.length →
      (∃ o, h[t]? = some o ∧ o.mu = true) →
      (∀ k, Slot.ref k ∈ elems → k < h0.length ∧ ¬ Reach h0 k t ∧ AdequateFrom tr h0 k) →
      appendCopies tr n true h t elems = some h2 →
      WF h2 ∧ KeepsExcept t h h2 ∧ h.length ≤ h2.length ∧
      (∃ o, h2[t]? = some o ∧ o.mu = true) ∧
      ∃ news : List Slot, listElems h2 t = listElems h t ++ news ∧
        (∀ m, news.map (absSlot (abs m h2)) = elems.map (absSlot (abs m h0))) ∧
        (∀ s ∈ news, ∀ y, ReachSlot h2 s y → h0.length ≤ y ∨ IsImm h2 y) := by
  intro elems
  induction elems with
  | nil =>
    intro h h2 wf _ _ htm _ e
    simp only [appendCopies, Option.some.injEq] at e
    subst e
    exact ⟨wf, KeepsExcept.refl t h, Nat.le_refl _, htm, [], by simp, fun _ => rfl,
      fun s hs => by cases hs⟩
  | cons s rest ih =>
    intro h h2 wf ke hlen htm hel e
    cases s with
    | val v => simp [appendCopies] at e
    | ref k =>
      simp only [appendCopies, if_true] at e
      cases ecp : copyWith tr n h k with
      | none => simp [ecp] at e
      | some pr =>
        obtain ⟨h1, k'⟩ := pr
        simp only [ecp] at e
        obtain ⟨hk0, hun, adq0⟩ := hel k List.mem_cons_self
        have hkh : k < h.length := Nat.lt_of_lt_of_le hk0 hlen
        have adq : AdequateFrom tr h k := adequateFrom_keepsExcept wf0.closed ke htm0 hk0 hun adq0
        obtain ⟨sb, wf1, _, hk', ha, hs, _⟩ := copyWith_spec tr n h k h1 k' wf adq ecp
        obtain ⟨ot, et, mt⟩ := htm
        have et1 : h1[t]? = some ot := sb.get et
        have hv : slotValid h1 (Slot.ref k') = true := by simpa [slotValid] using hk'
        -- the store after the append
        have wf1' : WF (pushBack h1 t (Slot.ref k')) := pushBack_wf wf1 t _
        have ke1 : KeepsExcept t h0 (pushBack h1 t (Slot.ref k')) :=
          (ke.trans (Keeps.except sb.keeps t)).trans (pushBack_keepsExcept h1 t _)
        have hlen1 : h0.length ≤ (pushBack h1 t (Slot.ref k')).length := by
          rw [pushBack_len]; exact Nat.le_trans hlen sb.len
        have htm1 : ∃ o, (pushBack h1 t (Slot.ref k'))[t]? = some o ∧ o.mu = true :=
          ⟨_, pushBack_get_self et1 mt hv, mt⟩
        obtain ⟨wf2, ke2, hlen2, htm2, news, hl2, hab2, hsep2⟩ :=
          ih (pushBack h1 t (Slot.ref k')) h2 wf1' ke1 hlen1 htm1
            (fun q hq => hel q (List.mem_cons_of_mem _ hq)) e
        have hunk' : ¬ Reach h1 k' t := by
          intro hr
          rcases hs t hr with h3 | ⟨o3, e3, m3⟩
          · have := lt_of_get et; omega
          · rw [et1] at e3; cases e3; rw [mt] at m3; cases m3
        have kex : KeepsExcept t h1 h2 := (pushBack_keepsExcept h1 t _).trans ke2
        refine ⟨wf2, ((Keeps.except sb.keeps t).trans (pushBack_keepsExcept h1 t _)).trans ke2, ?_, htm2,
          Slot.ref k' :: news, ?_, fun m => ?_, fun s hsm y hy => ?_⟩
        · rw [pushBack_len] at hlen2
          exact Nat.le_trans sb.len hlen2
        · rw [hl2, listElems_pushBack et1 mt hv]
          have : listElems h1 t = listElems h t := by simp [listElems, et1, et]
          rw [this]; simp
        · -- the copy k' does not reach t, so later appends leave it alone
          simp only [List.map_cons, hab2 m, absSlot]
          rw [abs_keepsExcept wf1.closed kex hk' hunk' m, ha m,
            abs_keepsExcept wf0.closed ke hk0 hun m]
        · rcases List.mem_cons.mp hsm with rfl | hsm'
          · have hy1 : Reach h1 k' y := (reach_keepsExcept wf1.closed kex hk' hunk').mp hy
            rcases hs y hy1 with h3 | ⟨o3, e3, m3⟩
            · exact Or.inl (Nat.le_trans hlen h3)
            · have hyt : y ≠ t := by
                intro hh; subst hh
                rw [et1] at e3; cases e3; rw [mt] at m3; cases m3
              exact Or.inr ⟨o3, kex y o3 hyt e3, m3⟩
          · exact hsep2 s hsm' y hy

/-! ## `a + b` -/

theorem fieldsRel_getField {k : Nat} {h h2 : Store} (f : Nat) :
    ∀ {fs fs' : List (Nat × Slot)}, FieldsRel k h h2 fs fs' → ∀ s', getField fs' f = some s' →
      ∃ s, getField fs f = some s ∧ SlotRel k h h2 s s'
  | [], [], _, _, hg => by simp [Heap.getField] at hg
  | (g, t) :: ps, (g', t') :: ps', ⟨⟨hd1, hd2⟩, tl⟩, s', hg => by
    simp only at hd1
    subst hd1
    simp only [Heap.getField] at hg ⊢
    by_cases hgf : g' = f
    · simp only [hgf, if_true, Option.some.injEq] at hg ⊢
      subst hg
      exact ⟨t, rfl, hd2⟩
    · simp only [hgf, if_false] at hg ⊢
      exact fieldsRel_getField f tl s' hg
  | [], _ :: _, hf, _, _ => hf.elim
  | _ :: _, [], hf, _, _ => hf.elim

theorem mem_of_getField {fs : List (Nat × Slot)} {f : Nat} {s : Slot} (hg : Heap.getField fs f = some s) :
    (f, s) ∈ fs := by
  induction fs with
  | nil => simp [Heap.getField] at hg
  | cons p rest ih =>
    obtain ⟨g, t⟩ := p
    simp only [Heap.getField] at hg
    by_cases hgf : g = f
    · simp only [hgf, if_true, Option.some.injEq] at hg
      subst hg; subst hgf
      exact List.mem_cons_self
    · simp only [hgf, if_false] at hg
      exact List.mem_cons_of_mem _ (ih hg)

theorem kidsLoc_some {vf : Nat} {h : Store} {a t : Nat} (e : kidsLoc vf h a = some t) :
    ∃ o, h[a]? = some o ∧ Heap.getField o.fields vf = some (Slot.ref t) := by
  unfold kidsLoc at e
  cases eo : h[a]? with
  | none => simp [eo] at e
  | some o =>
    simp only [eo] at e
    cases eg : Heap.getField o.fields vf with
    | none => simp [eg] at e
    | some s =>
      cases s with
      | val _ => simp [eg] at e
      | ref r =>
        simp only [eg, Option.some.injEq] at e
        subst e
        exact ⟨o, rfl, eg⟩

theorem kidsLoc_of {vf : Nat} {h : Store} {a t : Nat} {o : Obj} (eo : h[a]? = some o)
    (eg : Heap.getField o.fields vf = some (Slot.ref t)) : kidsLoc vf h a = some t := by
  simp [kidsLoc, eo, eg]

/-- The element abstractions of a list object are determined by its abstraction. -/
theorem listElems_abs_of_abs {h h' : Store} {t t' : Nat} {m : Nat}
    (e : abs (m + 1) h' t' = abs (m + 1) h t) (ht : t < h.length) (ht' : t' < h'.length) :
    (listElems h' t').map (absSlot (abs m h')) = (listElems h t).map (absSlot (abs m h)) := by
  obtain ⟨o, eo⟩ := get_of_lt ht
  obtain ⟨o', eo'⟩ := get_of_lt ht'
  simp only [abs, eo, eo'] at e
  injection e with _ _ hk
  have := congrArg (List.map Prod.snd) hk
  simpa [listElems, eo, eo', List.map_map, Function.comp_def] using this

/-- **`a + b` with the copy as target.** Nothing that existed before is modified (so both operands
keep their abstraction); the result is a fresh object whose children are the abstractions of
`a`'s children followed by those of the iterated elements. -/
theorem kvAdd_pure {tr : Nat → Nat → Treat} {n vf : Nat} {h h2 : Store} {a bl c ta : Nat}
    (wf : WF h) (adqa : AdequateFrom tr h a)
    (hka : kidsLoc vf h a = some ta)
    (hma : ∀ o, h[a]? = some o → o.mu = true)
    (hmta : ∃ o, h[ta]? = some o ∧ o.mu = true)
    (hbl : bl < h.length)
    (adqb : ∀ k, Slot.ref k ∈ listElems h bl → AdequateFrom tr h k)
    (e : kvAdd AddTarget.copy tr n vf h a bl = some (h2, c)) :
    Keeps h h2 ∧ h.length ≤ c ∧
    (∀ m x, x < h.length → abs m h2 x = abs m h x) ∧
    (∀ m, kidsAbs m vf h2 c = kidsAbs m vf h a ++ (listElems h bl).map (absSlot (abs m h))) ∧
    (∀ x, Reach h2 c x → h.length ≤ x ∨ IsImm h2 x) := by
  unfold kvAdd at e
  cases n with
  | zero => simp [copyWith] at e
  | succ n =>
  cases ecp : copyWith tr (n + 1) h a with
  | none => simp [ecp] at e
  | some pr =>
    obtain ⟨h1, c'⟩ := pr
    simp only [ecp] at e
    cases ekc : kidsLoc vf h1 c' with
    | none => simp [ekc] at e
    | some t =>
      simp only [ekc] at e
      cases eac : appendCopies tr (n + 1) true h1 t (listElems h1 bl) with
      | none => simp [eac] at e
      | some h2' =>
        simp only [eac, Option.some.injEq, Prod.mk.injEq] at e
        obtain ⟨rfl, rfl⟩ := e
        -- the copy of `a`
        obtain ⟨oa, eoa, ega⟩ := kidsLoc_some hka
        have hmua := hma oa eoa
        obtain ⟨sb, wf1, hla, hlc, habs, hsep, hord⟩ := copyWith_spec tr (n + 1) h a h1 c' wf adqa ecp
        obtain ⟨h1a, oc, rfl, rfl, sb1a, wf1a, hcls, hmuc, rel⟩ :=
          copyWith_shape (copyWith_spec tr n) wf adqa eoa hmua ecp
        have ec : (h1a ++ [oc])[h1a.length]? = some oc := by simp
        obtain ⟨oc2, ec2, egc⟩ := kidsLoc_some ekc
        rw [ec] at ec2
        cases ec2
        obtain ⟨sa, egsa, rts⟩ := fieldsRel_getField vf rel (Slot.ref t) egc
        rw [ega] at egsa
        cases egsa
        have hta : ta < h.length := lt_of_get hmta.choose_spec.1
        have htv : t < h1a.length := by simpa [slotValid] using rts.valid
        -- `t` is a mutable fresh list
        obtain ⟨ota, eota, mota⟩ := hmta
        obtain ⟨ot, eot⟩ := get_of_lt htv
        have mot : ot.mu = true := by
          have h1 := rts.absEq 1
          simp only [absSlot, abs, eot, eota] at h1
          injection h1 with _ hm _
          rw [hm, mota]
        have eot1 : (h1a ++ [oc])[t]? = some ot := (Sub.alloc h1a oc).get eot
        have htc : Reach (h1a ++ [oc]) h1a.length t :=
          Reach.step ec (mem_of_getField egc) (Reach.refl t)
        have htfresh : h.length ≤ t := by
          rcases hsep t htc with h3 | ⟨o3, e3, m3⟩
          · exact h3
          · rw [eot1] at e3; cases e3; rw [mot] at m3; cases m3
        -- the loop
        have hel : ∀ k, Slot.ref k ∈ listElems (h1a ++ [oc]) bl →
            k < (h1a ++ [oc]).length ∧ ¬ Reach (h1a ++ [oc]) k t ∧ AdequateFrom tr (h1a ++ [oc]) k := by
          intro k hk
          have hbe : listElems (h1a ++ [oc]) bl = listElems h bl := by
            simp [listElems, sb.get_lt hbl]
          rw [hbe] at hk
          obtain ⟨ob, eob⟩ := get_of_lt hbl
          have hkm : ∃ f, (f, Slot.ref k) ∈ ob.fields := by
            simp only [listElems, eob, List.mem_map] at hk
            obtain ⟨p, hp, hp2⟩ := hk
            exact ⟨p.1, by rw [← hp2]; exact hp⟩
          obtain ⟨f, hf⟩ := hkm
          have hkl : k < h.length := closed_ref wf.closed eob hf
          refine ⟨Nat.lt_of_lt_of_le hkl sb.len, ?_, (adqb k hk).keeps wf.closed sb.keeps hkl⟩
          intro hr
          have := reach_lt wf.closed hkl ((reach_sub_iff wf.closed sb hkl).mp hr)
          omega
        obtain ⟨wf2, ke2, _, htm2, news, hl2, hab2, hsepn⟩ :=
          appendCopies_spec (tr := tr) (n := n + 1) wf1 (t := t)
            (fun o eo => by rw [eot1] at eo; cases eo; exact mot)
            (listElems (h1a ++ [oc]) bl) (h1a ++ [oc]) h2' wf1 (KeepsExcept.refl t _) (Nat.le_refl _)
            ⟨ot, eot1, mot⟩ hel eac
        -- everything old is kept
        have keeps : Keeps h h2' := by
          intro x o ex
          have hx : x ≠ t := by have := lt_of_get ex; omega
          exact ke2 x o hx (sb.get ex)
        refine ⟨keeps, Nat.le_trans (Nat.le_trans (by omega) sb1a.len) (Nat.le_refl _), ?_, fun m => ?_, ?_⟩
        · intro m x hx
          exact abs_keeps wf.closed keeps m hx
        · -- children of the result
          have hct : h1a.length ≠ t := by omega
          have ec2 : h2'[h1a.length]? = some oc := ke2 _ oc hct ec
          have hk2 : kidsLoc vf h2' h1a.length = some t := kidsLoc_of ec2 egc
          have hbe : listElems (h1a ++ [oc]) bl = listElems h bl := by
            simp [listElems, sb.get_lt hbl]
          simp only [kidsAbs, hk2, hka, hl2, List.map_append, hab2 m, hbe]
          congr 1
          · -- the old elements of t keep their abstraction: t is not reachable from them
            have hle : (listElems (h1a ++ [oc]) t).map (absSlot (abs m (h1a ++ [oc])))
                = (listElems h ta).map (absSlot (abs m h)) := by
              have := rts.absEq (m + 1)
              simp only [absSlot] at this
              have h3 := listElems_abs_of_abs this hta htv
              have h4 : listElems (h1a ++ [oc]) t = listElems h1a t := by simp [listElems, eot, eot1]
              rw [h4, ← h3]
              apply List.map_congr_left
              intro s hs
              have hsv : slotValid h1a s = true := by
                simp only [listElems, eot, List.mem_map] at hs
                obtain ⟨p, hp, rfl⟩ := hs
                exact wf1a.closed t ot eot p hp
              exact absSlot_sub wf1a.closed (Sub.alloc h1a oc) m hsv
            rw [← hle]
            apply List.map_congr_left
            intro s hs
            cases s with
            | val _ => rfl
            | ref q =>
              simp only [absSlot]
              have hqm : ∃ f, (f, Slot.ref q) ∈ ot.fields := by
                simp only [listElems, eot1, List.mem_map] at hs
                obtain ⟨p, hp, hp2⟩ := hs
                exact ⟨p.1, by rw [← hp2]; exact hp⟩
              obtain ⟨f, hf⟩ := hqm
              have hqt : q < t := hord t ot htc htfresh eot1 mot _ hf q rfl
              have hql : q < (h1a ++ [oc]).length := by simp; omega
              have hunq : ¬ Reach (h1a ++ [oc]) q t := by
                intro hr
                have hold : ∀ x o, x < h.length → (h1a ++ [oc])[x]? = some o →
                    ∀ p ∈ o.fields, ∀ r, p.2 = Slot.ref r → r < h.length := by
                  intro x o hx ex p hp r hr2
                  rw [sb.get_lt hx] at ex
                  have := wf.closed x o ex p hp
                  rw [hr2] at this
                  simpa [slotValid] using this
                have := reach_le_of_ordered (k := h.length) wf1.imm hold hr
                  (fun x' o' hx' => hord x' o' (reach_trans htc (Reach.step eot1 hf hx')))
                rcases this with h5 | h5 | ⟨o5, e5, m5⟩
                · omega
                · omega
                · rw [eot1] at e5; cases e5; rw [mot] at m5; cases m5
              exact abs_keepsExcept wf1.closed ke2 hql hunq m
          · apply List.map_congr_left
            intro s hs
            obtain ⟨ob, eob⟩ := get_of_lt hbl
            have hsv : slotValid h s = true := by
              simp only [listElems, eob, List.mem_map] at hs
              obtain ⟨p, hp, rfl⟩ := hs
              exact wf.closed bl ob eob p hp
            exact absSlot_sub wf.closed sb m hsv
        · -- separation: the set S = (reachable from the copy before the loop) ∪ (reachable from a new
          -- element) is closed under successors in the final store, and all its members are fresh or immutable
          have immT : ∀ y, IsImm (h1a ++ [oc]) y → IsImm h2' y := by
            intro y ⟨o3, e3, m3⟩
            have hyt : y ≠ t := by
              intro hh; subst hh
              rw [eot1] at e3; cases e3; rw [mot] at m3; cases m3
            exact ⟨o3, ke2 y o3 hyt e3, m3⟩
          have hlen1 : h.length ≤ (h1a ++ [oc]).length := sb.len
          have inS : ∀ y x, (Reach (h1a ++ [oc]) h1a.length y ∨ ∃ s ∈ news, ReachSlot h2' s y) →
              Reach h2' y x →
              (Reach (h1a ++ [oc]) h1a.length x ∨ ∃ s ∈ news, ReachSlot h2' s x) := by
            intro y x hy hr
            induction hr with
            | refl _ => exact hy
            | @step l0 o0 f0 r0 x0 e0 hm0 _ ih =>
              apply ih
              rcases hy with hy | ⟨s, hs, hy⟩
              · by_cases hlt : l0 = t
                · subst hlt
                  -- successors of t: old elements or new ones
                  obtain ⟨o2, e2, _⟩ := htm2
                  rw [e0] at e2; cases e2
                  have hmem : Slot.ref r0 ∈ listElems h2' l0 := by
                    simp only [listElems, e0, List.mem_map]
                    exact ⟨(f0, Slot.ref r0), hm0, rfl⟩
                  rw [hl2] at hmem
                  rcases List.mem_append.mp hmem with h5 | h5
                  · left
                    simp only [listElems, eot1, List.mem_map] at h5
                    obtain ⟨p, hp, hp2⟩ := h5
                    obtain ⟨pf, ps⟩ := p
                    simp only at hp2
                    subst hp2
                    exact reach_trans hy (Reach.step eot1 hp (Reach.refl r0))
                  · right
                    exact ⟨Slot.ref r0, h5, Reach.refl r0⟩
                · left
                  have hl0 : l0 < (h1a ++ [oc]).length := reach_lt wf1.closed hlc hy
                  obtain ⟨o1, e1⟩ := get_of_lt hl0
                  have := ke2 l0 o1 hlt e1
                  rw [e0] at this; cases this
                  exact reach_trans hy (Reach.step e1 hm0 (Reach.refl r0))
              · right
                refine ⟨s, hs, ?_⟩
                cases s with
                | val _ => exact hy.elim
                | ref q => exact reach_trans hy (Reach.step e0 hm0 (Reach.refl r0))
          intro x hx
          rcases inS h1a.length x (Or.inl (Reach.refl _)) hx with h6 | ⟨s, hs, h6⟩
          · rcases hsep x h6 with h7 | h7
            · exact Or.inl h7
            · exact Or.inr (immT x h7)
          · rcases hsepn s hs x h6 with h7 | h7
            · exact Or.inl (Nat.le_trans hlen1 h7)
            · exact Or.inr h7

/-! ## `a += b` / `a.extend(b)` -/

/-- **`a += b`.** Only the children list of `a` is modified; it gains one element per iterated
element, each with the abstraction of its source (a copy). The elements must not reach the
children list of `a` (no self-extension). -/
theorem kvIAdd_spec {tr : Nat → Nat → Treat} {n vf : Nat} {h h2 : Store} {a bl ta : Nat}
    (wf : WF h) (hka : kidsLoc vf h a = some ta)
    (hmta : ∃ o, h[ta]? = some o ∧ o.mu = true)
    (hel : ∀ k, Slot.ref k ∈ listElems h bl → k < h.length ∧ ¬ Reach h k ta ∧ AdequateFrom tr h k)
    (e : kvIAdd true tr n vf h a bl = some h2) :
    WF h2 ∧ KeepsExcept ta h h2 ∧
    ∃ news : List Slot, listElems h2 ta = listElems h ta ++ news ∧
      ∀ m, news.map (absSlot (abs m h2)) = (listElems h bl).map (absSlot (abs m h)) := by
  unfold kvIAdd at e
  simp only [hka] at e
  obtain ⟨ota, eota, mota⟩ := hmta
  obtain ⟨wf2, ke2, _, _, news, h1, h2', _⟩ :=
    appendCopies_spec (tr := tr) (n := n) wf (t := ta)
      (fun o eo => by rw [eota] at eo; cases eo; exact mota)
      (listElems h bl) h h2 wf (KeepsExcept.refl ta h) (Nat.le_refl _) ⟨ota, eota, mota⟩ hel e
  exact ⟨wf2, ke2, news, h1, h2'⟩

end C09
