import Srctools.Proofs.C15Compute
/-!
# C15 — saving the object obtained by reading a saved file reproduces the file
-/
namespace C15

/-- the pixels `Frame.load()` would read for a lazily read frame (`none` if the file is too short
or the format has no loader). -/
def decodeOpt (file : List Nat) (fmt w h off : Nat) : Option (List Nat) :=
  match decodeAt file fmt w h off with
  | .ok d => some d
  | .error _ => none

/-- **The object `VTF.read` returns** for a file whose view is `vw`: every frame and the thumbnail
are lazy (no data yet, content = what `load()` will decode from the file). -/
def objOfRead (file : List Nat) (vw : View) : Vtf :=
  { width := vw.width, height := vw.height, depth := vw.depth, verMinor := vw.verMinor, flags := vw.flags,
    frameCount := vw.frameCount, firstFrame := vw.firstFrame, refl := vw.refl, bump := vw.bump,
    fmt := vw.fmt, lowFmt := vw.lowFmt, mipCount := vw.mipCount,
    low := ⟨vw.lowW, vw.lowH, none,
      match vw.lowOff with
      | some o => decodeOpt file vw.lowFmt vw.lowW vw.lowH o
      | none => none⟩,
    frames := vw.frames.map fun e => (e.1, ⟨e.2.1, e.2.2.1, none, decodeOpt file vw.fmt e.2.1 e.2.2.1 e.2.2.2⟩),
    res := vw.res, sheet := vw.sheet }

/-! ### what is written does not change under the reader's normalisations -/

theorem resBlocks_norm (rs : List Res) : resBlocks (rs.map normRes) = resBlocks rs := by
  induction rs with
  | nil => rfl
  | cons r rs ih => by_cases hb : r.isBytes <;> simp [resBlocks, normRes, hb, ih]

theorem resOffsets_norm (rs : List Res) : ∀ s, resOffsets s (rs.map normRes) = resOffsets s rs := by
  induction rs with
  | nil => intro _; rfl
  | cons r rs ih => intro s; by_cases hb : r.isBytes <;> simp [resOffsets, normRes, hb, ih]

theorem and_fd_idem (f : Nat) : f &&& 0xFD &&& 0xFD = f &&& 0xFD := by
  rw [Nat.and_assoc]; rfl

theorem or_2_idem (f : Nat) : f ||| 2 ||| 2 = f ||| 2 := by
  rw [Nat.or_assoc]; rfl

theorem resEntries_norm (rs : List Res) : ∀ os, resEntries (rs.map normRes) os = resEntries rs os := by
  induction rs with
  | nil => intro _; rfl
  | cons r rs ih =>
    intro os
    cases os with
    | nil => rfl
    | cons o os =>
      by_cases hb : r.isBytes <;>
        simp [resEntries, resEntry, normRes, hb, ih, and_fd_idem, or_2_idem]

theorem sheetFrameBytes_norm (ver : Nat) (fr : SheetFrame) (h : frameWF fr = true) :
    sheetFrameBytes ver (normFrame ver fr) = sheetFrameBytes ver fr := by
  simp only [frameWF, Bool.and_eq_true, beq_iff_eq] at h
  by_cases hv : ver = 1
  · simp [normFrame, hv]
  · have h16 : (fr.coords.take 16).length = 16 := by simp [h.2]
    simp only [sheetFrameBytes, normFrame, hv, if_false, List.append_assoc]
    rw [List.take_append_of_le_length (by omega), List.take_of_length_le (by omega)]

theorem sheetSeqBytes_norm (ver : Nat) (s : SheetSeq) (h : seqWF s = true) :
    sheetSeqBytes ver (normSeq ver s) = sheetSeqBytes ver s := by
  simp only [seqWF, Bool.and_eq_true] at h
  have hall := List.all_eq_true.mp h.2
  simp only [sheetSeqBytes, normSeq, List.length_map, List.map_map]
  congr 2
  apply List.map_congr_left
  intro fr hfr
  exact sheetFrameBytes_norm ver fr (hall fr hfr)

theorem sheetData_norm (ver : Nat) (seqs : List SheetSeq) (h : seqs.all seqWF = true) :
    sheetData (seqs.map (normSeq ver)) ver = sheetData seqs ver := by
  simp only [sheetData, List.length_map, List.map_map]
  congr 2
  apply List.map_congr_left
  intro s hs
  exact sheetSeqBytes_norm ver s (List.all_eq_true.mp h s hs)

theorem saveWF_depth (v : Vtf) (minor sheetVer : Nat) (hwf : saveWF v minor sheetVer = true) :
    viewDepth v minor = v.depth := by
  simp only [saveWF, Bool.and_eq_true, decide_eq_true_eq] at hwf
  obtain ⟨⟨_, hd1⟩, hd2⟩ := hwf
  unfold viewDepth
  split
  · rw [if_neg (by omega)]
  · exact (hd2 (by omega)).symm

theorem saveWF_sheet (v : Vtf) (minor sheetVer : Nat) (hwf : saveWF v minor sheetVer = true) :
    v.sheet.all seqWF = true := by
  simp only [saveWF, fileWF, resPartWF, sheetWF, Bool.and_eq_true, decide_eq_true_eq] at hwf
  exact hwf.1.1.1.2.1.1.1.2.1.2

theorem fileBytes_objOfRead (v : Vtf) (minor sheetVer : Nat) (asw : Bool) (file lowBytes : List Nat)
    (blocks : List (List Nat)) (n : Nat) (hwf : saveWF v minor sheetVer = true) :
    fileBytes (objOfRead file (viewOf v minor sheetVer n)) minor sheetVer asw lowBytes blocks
      = fileBytes v minor sheetVer asw lowBytes blocks := by
  have hd := saveWF_depth v minor sheetVer hwf
  have hs := saveWF_sheet v minor sheetVer hwf
  by_cases hm : minor ≥ 3
  · simp [fileBytes, hdrFields, resTable, dataBlocks, sheetBlock, lowOff, sheetOff, headerSize, resCount,
      hasSheetRes, objOfRead, viewOf, hm, hd, resBlocks_norm, resOffsets_norm, resEntries_norm,
      sheetData_norm sheetVer v.sheet hs]
  · simp [fileBytes, hdrFields, resTable, dataBlocks, sheetBlock, lowOff, headerSize,
      hasSheetRes, objOfRead, viewOf, hm, hd]

/-! ### keys are distinct, lookups in the read object -/

theorem fileKeys_nodup (mc fc : Nat) (dseq : List Nat) (hd : dseq.Nodup) : (fileKeys mc fc dseq).Nodup := by
  unfold fileKeys List.Nodup
  rw [List.pairwise_flatMap]
  constructor
  · intro m _
    rw [List.pairwise_flatMap]
    constructor
    · intro f _
      rw [List.pairwise_map]
      exact List.Pairwise.imp (fun hne heq => hne (by simpa using heq)) hd
    · refine List.Pairwise.imp ?_ (List.nodup_range (n := fc))
      intro f1 f2 hne x hx y hy heq
      simp only [List.mem_map] at hx hy
      obtain ⟨_, _, rfl⟩ := hx
      obtain ⟨_, _, rfl⟩ := hy
      exact hne (by simpa using congrArg Prod.fst heq)
  · have hr : List.Pairwise (· ≠ ·) (List.range mc).reverse := by
      rw [List.pairwise_reverse]
      exact List.Pairwise.imp (fun h => Ne.symm h) (List.nodup_range (n := mc))
    refine List.Pairwise.imp ?_ hr
    intro m1 m2 hne x hx y hy heq
    simp only [List.mem_flatMap, List.mem_map] at hx hy
    obtain ⟨_, _, _, _, rfl⟩ := hx
    obtain ⟨_, _, _, _, rfl⟩ := hy
    exact hne (by simpa using congrArg (fun k => k.2.2) heq)

theorem depthSeq_nodup (flags minor depth : Nat) : (depthSeq flags minor depth).Nodup := by
  unfold depthSeq
  split
  · split <;> exact List.nodup_range
  · exact List.nodup_range

theorem lookup_map_of_mem {α : Type} (g : α → FrameM) (key : α → Key) :
    ∀ (l : List α), (l.map key).Nodup → ∀ e ∈ l,
      lookupFrame (l.map fun a => (key a, g a)) (key e) = some (g e) := by
  intro l
  induction l with
  | nil => intro _ e he; simp at he
  | cons a l ih =>
    intro hnd e he
    simp only [List.map_cons, List.nodup_cons] at hnd
    by_cases hk : key a = key e
    · have : a = e ∨ e ∈ l := by simpa [eq_comm] using he
      rcases this with rfl | hin
      · simp [lookupFrame]
      · exact absurd (List.mem_map.mpr ⟨e, hin, hk.symm⟩) hnd.1
    · have hne : (key a == key e) = false := by simpa using hk
      have hin : e ∈ l := by
        rcases List.mem_cons.mp he with rfl | h
        · exact absurd rfl hk
        · exact h
      have := ih hnd.2 e hin
      simpa [lookupFrame, List.find?_cons, hne] using this

theorem forall2_mem_right {α β : Type} {R : α → β → Prop} :
    ∀ {l₁ : List α} {l₂ : List β}, List.Forall₂ R l₁ l₂ → ∀ b ∈ l₂, ∃ a ∈ l₁, R a b := by
  intro l₁ l₂ h
  induction h with
  | nil => intro b hb; simp at hb
  | cons hab _ ih =>
    intro b hb
    rcases List.mem_cons.mp hb with rfl | hb'
    · exact ⟨_, by simp, hab⟩
    · obtain ⟨a, ha, hr⟩ := ih b hb'
      exact ⟨a, by simp [ha], hr⟩

theorem forall2_mem_left {α β : Type} {R : α → β → Prop} :
    ∀ {l₁ : List α} {l₂ : List β}, List.Forall₂ R l₁ l₂ → ∀ a ∈ l₁, ∃ b ∈ l₂, R a b := by
  intro l₁ l₂ h
  induction h with
  | nil => intro a ha; simp at ha
  | cons hab _ ih =>
    intro a ha
    rcases List.mem_cons.mp ha with rfl | ha'
    · exact ⟨_, by simp, hab⟩
    · obtain ⟨b, hb, hr⟩ := ih a ha'
      exact ⟨b, by simp [hb], hr⟩

theorem mapM_congr_mem {α β : Type} (f g : α → Except Err β) :
    ∀ (l : List α), (∀ a ∈ l, f a = g a) → l.mapM f = l.mapM g := by
  intro l
  induction l with
  | nil => intro _; rfl
  | cons a l ih =>
    intro h
    rw [List.mapM_cons, List.mapM_cons, h a (by simp), ih (fun a' ha' => h a' (by simp [ha']))]

theorem quantImg_length (i : Nat) (px : List Nat) : (quantImg i px).length = 4 * (px.length / 4) := by
  unfold quantImg
  rw [length_flatMap_const 4 _ _ (fun q _ => by simp [Px.toList])]
  simp [chunks, chunksAux_length]

/-- every byte of every image that will be written is a byte. -/
def pixelsWF (v : Vtf) (minor : Nat) : Bool :=
  (v.low.load.data.getD []).all (· < 256) &&
  (fileKeys v.mipCount v.frameCount (depthSeq v.flags minor v.depth)).all fun k =>
    match frameFor v k with
    | .ok fr => (fr.load.data.getD []).all (· < 256)
    | .error _ => true

/-- image and thumbnail formats obey the codec laws (all writable ones but RGB565 / BGR565). -/
def formatsLawful (v : Vtf) : Bool :=
  lawfulInds.contains v.fmt && (v.lowFmt == fmtNone || lawfulInds.contains v.lowFmt)

/-- A lazily read frame whose block in the file is `save_<fmt> data` re-encodes to that block,
given the codec's idempotence on `data`. -/
theorem reencode (fmt w h off : Nat) (file data : List Nat)
    (hsave : (codecOf fmt).hasSave = true) (hload : (codecOf fmt).hasLoad = true)
    (hne : (codecOf fmt).load.isEmpty = false)
    (hlen : data.length = 4 * w * h)
    (hs : slice file off (frameSize (fmtOf fmt) w h) = saveImg (codecOf fmt) data)
    (hid : saveImg (codecOf fmt) (loadImg (codecOf fmt) (saveImg (codecOf fmt) data))
      = saveImg (codecOf fmt) data)
    (hll : (loadImg (codecOf fmt) (saveImg (codecOf fmt) data)).length = 4 * w * h) :
    encodeFrame fmt (FrameM.load ⟨w, h, none, decodeOpt file fmt w h off⟩)
      = .ok (saveImg (codecOf fmt) data) := by
  have E : encodeFrame fmt ⟨w, h, some data, none⟩ = .ok (saveImg (codecOf fmt) data) := by
    simp [encodeFrame, hlen, hsave, pure, Except.pure]
  have hl := (encodeFrame_ok _ _ _ E).2.2.2
  simp only at hl
  have hdec : decodeOpt file fmt w h off = some (loadImg (codecOf fmt) (saveImg (codecOf fmt) data)) := by
    simp [decodeOpt, decodeAt, hs, hl, hload, hne, pure, Except.pure]
  simp [FrameM.load, hdec, encodeFrame, hll, hsave, hid, pure, Except.pure]

theorem encodeFrame_load_some (fmt : Nat) (fr : FrameM) (bs : List Nat)
    (h : encodeFrame fmt fr.load = .ok bs) :
    bs = saveImg (codecOf fmt) (fr.load.data.getD []) ∧
    (fr.load.data.getD []).length = 4 * fr.w * fr.h := by
  have E := encodeFrame_ok _ _ _ h
  obtain ⟨d, hd⟩ := load_data_some fr
  rw [hd] at E ⊢
  simp only [Option.getD_some, (load_dims fr).1, (load_dims fr).2] at E ⊢
  exact ⟨E.1, E.2.1⟩

theorem lawful_facts (i : Nat) (hi : i ∈ lawfulInds) :
    (codecOf i).hasSave = true ∧ (codecOf i).hasLoad = true ∧ (codecOf i).load.isEmpty = false := by
  have : lawfulInds.all (fun i => (codecOf i).hasSave && (codecOf i).hasLoad && !(codecOf i).load.isEmpty) = true := by
    decide
  have h2 := List.all_eq_true.mp this i hi
  simp only [Bool.and_eq_true, Bool.not_eq_true'] at h2
  exact ⟨h2.1.1, h2.1.2, h2.2⟩

/-- `compute_mipmaps` on an object whose frames to be written are all lazy changes nothing of what
`save` lays out: every lazy frame loads its file content afterwards. -/
theorem assemble_applyCompute_lazy (o o' : Vtf) (filt minor sheetVer : Nat) (asw : Bool)
    (hc : applyCompute o filt = .ok o')
    (hlow : o.lowFmt ≠ fmtNone → ∃ d, o.low.fileData = some d)
    (hfr : ∀ k ∈ fileKeys o.mipCount o.frameCount (depthSeq o.flags minor o.depth),
      ∀ fr, frameFor o k = .ok fr → ∃ d, fr.fileData = some d) :
    assemble o' minor sheetVer asw = assemble o minor sheetVer asw := by
  obtain ⟨frames', low', rfl, hm, _, hw, hh, hfd⟩ := applyCompute_shape o o' filt hc
  have hlowE : encodeLow { o with frames := frames', low := low' } = encodeLow o := by
    unfold encodeLow
    by_cases hn : o.lowFmt = fmtNone
    · simp [hn]
    · obtain ⟨d, hd⟩ := hlow hn
      have e1 : low'.load = ⟨o.low.w, o.low.h, some d, none⟩ := by
        simp [FrameM.load, hfd, hd, hw, hh]
      have e2 : o.low.load = ⟨o.low.w, o.low.h, some d, none⟩ := by
        simp [FrameM.load, hd]
      simp [hn, e1, e2]
  have hblocks : (fileKeys o.mipCount o.frameCount (depthSeq o.flags minor o.depth)).mapM
      (encodeKey { o with frames := frames', low := low' })
      = (fileKeys o.mipCount o.frameCount (depthSeq o.flags minor o.depth)).mapM (encodeKey o) := by
    apply mapM_congr_mem
    intro k hk
    rcases frameFor_same o frames' low' filt hm k with ⟨e, h1, h2⟩ | ⟨fr, fr', h1, h2, hs⟩
    · simp [encodeKey, h1, h2]
    · obtain ⟨d, hd⟩ := hfr k hk fr h1
      have e1 : fr'.load = ⟨fr.w, fr.h, some d, none⟩ := by
        have hdat := hs.2.2 d hd
        have hdim := load_dims fr'
        have hfdn : fr'.load.fileData = none := by
          unfold FrameM.load; split <;> simp_all
        cases hl : fr'.load with
        | mk w h data fdata =>
          rw [hl] at hdat hdim hfdn
          simp only at hdat hdim hfdn
          rw [hdim.1, hdim.2, hdat, hfdn, hs.1, hs.2.1]
      have e2 : fr.load = ⟨fr.w, fr.h, some d, none⟩ := by simp [FrameM.load, hd]
      simp [encodeKey, h1, h2, e1, e2]
  unfold assemble
  rw [hlowE]
  simp only [hblocks]
  have hfb : ∀ lb bl, fileBytes { o with frames := frames', low := low' } minor sheetVer asw lb bl
      = fileBytes o minor sheetVer asw lb bl := by
    intro lb bl
    simp [fileBytes, hdrFields, resTable, dataBlocks, sheetBlock, lowOff, sheetOff, headerSize, resCount,
      hasSheetRes, hw, hh]
  simp only [hfb]

/-! ### the second `compute_mipmaps` succeeds on power-of-two textures -/

theorem pow2_level (a m : Nat) : max (2 ^ a >>> m) 1 = 2 ^ (a - m) := by
  by_cases h : m ≤ a
  · rw [shiftRight_two_pow _ _ h]; exact Nat.max_eq_left (Nat.two_pow_pos _)
  · have hlt : 2 ^ a < 2 ^ m := Nat.pow_lt_pow_right (by decide) (by omega)
    rw [Nat.shiftRight_eq_div_pow, Nat.div_eq_of_lt hlt, show a - m = 0 by omega]; rfl

theorem readerDims_pow2 (a b m : Nat) : readerDims (2 ^ a) (2 ^ b) m = (2 ^ (a - m), 2 ^ (b - m)) := by
  simp [readerDims, pow2_level]

theorem rescaleOK_pow2 (a b m : Nat) :
    rescaleOK (2 ^ (a - (m + 1))) (2 ^ (b - (m + 1))) (2 ^ (a - m)) (2 ^ (b - m)) = true := by
  have h1 : 2 ^ (a - (m + 1)) = 2 ^ (a - m) ∨ 2 * 2 ^ (a - (m + 1)) = 2 ^ (a - m) := by
    by_cases h : m < a
    · right; rw [show a - m = (a - (m + 1)) + 1 by omega, Nat.pow_succ]; ring
    · left; rw [show a - (m + 1) = 0 by omega, show a - m = 0 by omega]
  have h2 : 2 ^ (b - (m + 1)) = 2 ^ (b - m) ∨ 2 * 2 ^ (b - (m + 1)) = 2 ^ (b - m) := by
    by_cases h : m < b
    · right; rw [show b - m = (b - (m + 1)) + 1 by omega, Nat.pow_succ]; ring
    · left; rw [show b - (m + 1) = 0 by omega, show b - m = 0 by omega]
  simp only [rescaleOK, Bool.and_eq_true, Bool.or_eq_true, beq_iff_eq]
  exact ⟨h1, h2⟩

theorem levelAfter_ok_lazy (fr : List (Key × FrameM)) (filt f d a b : Nat) (hf : filt ≤ 4) :
    ∀ m, (∀ j, j ≤ m → ∃ x, lookupFrame fr (f, d, j) = some ⟨2 ^ (a - j), 2 ^ (b - j), none, x⟩) →
      ∃ out, levelAfter fr filt f d m = .ok out ∧ out.w = 2 ^ (a - m) ∧ out.h = 2 ^ (b - m) := by
  intro m
  induction m with
  | zero =>
    intro hl
    obtain ⟨x, hx⟩ := hl 0 (Nat.le_refl 0)
    refine ⟨_, by simp [levelAfter, hx, pure, Except.pure]; rfl, ?_, ?_⟩
    · exact (load_dims _).1
    · exact (load_dims _).2
  | succ m ih =>
    intro hl
    obtain ⟨p, hp, hpw, hph⟩ := ih (fun j hj => hl j (by omega))
    obtain ⟨x, hx⟩ := hl (m + 1) (Nat.le_refl _)
    obtain ⟨out, hout⟩ := scaleDown_isSome filt p.w p.h (2 ^ (a - (m + 1))) (2 ^ (b - (m + 1)))
      (p.data.getD []) hf
    refine ⟨{ w := 2 ^ (a - (m + 1)), h := 2 ^ (b - (m + 1)), data := some out, fileData := x }, ?_, rfl, rfl⟩
    rw [levelAfter, hp]
    simp only [hx, hpw, hph, rescaleOK_pow2, Bool.not_true, Bool.false_eq_true, if_false]
    rw [← hpw, ← hph, hout]
    rfl

theorem mapM_ok_of_forall {α β : Type} (f : α → Except Err β) :
    ∀ (l : List α), (∀ a ∈ l, ∃ b, f a = .ok b) → ∃ r, l.mapM f = .ok r := by
  intro l
  induction l with
  | nil => intro _; exact ⟨[], rfl⟩
  | cons a l ih =>
    intro h
    obtain ⟨b, hb⟩ := h a (by simp)
    obtain ⟨r, hr⟩ := ih (fun a' ha' => h a' (by simp [ha']))
    exact ⟨b :: r, by rw [List.mapM_cons, hb, hr]; rfl⟩

theorem layoutFrom_mem (fsz : Nat → Nat → Nat) (dims : Nat → Nat × Nat) :
    ∀ (ks : List Key) (off : Nat) (e : Key × Nat × Nat × Nat), e ∈ layoutFrom fsz dims ks off →
      e.1 ∈ ks ∧ (e.2.1, e.2.2.1) = dims e.1.2.2 := by
  intro ks
  induction ks with
  | nil => intro off e he; simp [layoutFrom] at he
  | cons k ks ih =>
    intro off e he
    simp only [layoutFrom, List.mem_cons] at he
    rcases he with rfl | he
    · exact ⟨by simp, rfl⟩
    · have := ih _ e he
      exact ⟨by simp [this.1], this.2⟩

/-- extra conditions under which re-saving a read file cannot fail: power-of-two size, at least one
declared level, and (when there is a thumbnail) a non-empty thumbnail and at least one frame. -/
def resaveWF (v : Vtf) (a b : Nat) : Prop :=
  v.width = 2 ^ a ∧ v.height = 2 ^ b ∧ 1 ≤ v.mipCount ∧
    (v.lowFmt ≠ fmtNone → 1 ≤ v.low.w ∧ 1 ≤ v.low.h ∧ 1 ≤ v.frameCount)

theorem objOfRead_lookup (v : Vtf) (minor sheetVer n a b : Nat) (file : List Nat)
    (hd : viewDepth v minor = v.depth) (hw : v.width = 2 ^ a) (hh : v.height = 2 ^ b) (k : Key)
    (hk : k ∈ fileKeys v.mipCount v.frameCount (depthSeq v.flags minor v.depth)) :
    ∃ x, lookupFrame (objOfRead file (viewOf v minor sheetVer n)).frames k
      = some ⟨2 ^ (a - k.2.2), 2 ^ (b - k.2.2), none, x⟩ := by
  have hkeys : (viewOf v minor sheetVer n).frames.map (·.1)
      = fileKeys v.mipCount v.frameCount (depthSeq v.flags minor v.depth) := by
    simp only [viewOf, hd]; exact layoutFrom_keys _ _ _ _
  have hnd : ((viewOf v minor sheetVer n).frames.map (·.1)).Nodup := by
    rw [hkeys]; exact fileKeys_nodup _ _ _ (depthSeq_nodup _ _ _)
  rw [← hkeys] at hk
  obtain ⟨e, he, rfl⟩ := List.mem_map.mp hk
  have hdim := (layoutFrom_mem _ _ _ _ e (by simpa [viewOf] using he)).2
  rw [hw, hh, readerDims_pow2] at hdim
  have hlook := lookup_map_of_mem
    (fun (e : Key × Nat × Nat × Nat) => (⟨e.2.1, e.2.2.1, none,
      decodeOpt file (viewOf v minor sheetVer n).fmt e.2.1 e.2.2.1 e.2.2.2⟩ : FrameM)) (·.1)
    (viewOf v minor sheetVer n).frames hnd e he
  have h1 : e.2.1 = 2 ^ (a - e.1.2.2) := by simpa using congrArg Prod.fst hdim
  have h2 : e.2.2.1 = 2 ^ (b - e.1.2.2) := by simpa using congrArg Prod.snd hdim
  refine ⟨decodeOpt file (viewOf v minor sheetVer n).fmt e.2.1 e.2.2.1 e.2.2.2, ?_⟩
  simp only [objOfRead]
  rw [hlook, h1, h2]

theorem computeMips_objOfRead_ok (v : Vtf) (minor sheetVer n a b : Nat) (file : List Nat)
    (hd : viewDepth v minor = v.depth) (hr : resaveWF v a b) :
    ∃ frames', computeMips (objOfRead file (viewOf v minor sheetVer n)) 4 = .ok frames' := by
  obtain ⟨hw, hh, hmc, _⟩ := hr
  have hmax : max v.mipCount 1 = v.mipCount := Nat.max_eq_left hmc
  have hlk := objOfRead_lookup v minor sheetVer n a b file hd hw hh
  unfold computeMips
  have hcheck : (fileKeys (max (objOfRead file (viewOf v minor sheetVer n)).mipCount 1)
      (objOfRead file (viewOf v minor sheetVer n)).frameCount
      (depthSeq (objOfRead file (viewOf v minor sheetVer n)).flags
        (objOfRead file (viewOf v minor sheetVer n)).verMinor
        (objOfRead file (viewOf v minor sheetVer n)).depth)).all
      (fun k => (lookupFrame (objOfRead file (viewOf v minor sheetVer n)).frames k).isSome) = true := by
    have : fileKeys (max (objOfRead file (viewOf v minor sheetVer n)).mipCount 1)
        (objOfRead file (viewOf v minor sheetVer n)).frameCount
        (depthSeq (objOfRead file (viewOf v minor sheetVer n)).flags
          (objOfRead file (viewOf v minor sheetVer n)).verMinor
          (objOfRead file (viewOf v minor sheetVer n)).depth)
        = fileKeys v.mipCount v.frameCount (depthSeq v.flags minor v.depth) := by
      simp [objOfRead, viewOf, hd, hmax]
    rw [this, List.all_eq_true]
    intro k hk
    obtain ⟨x, hx⟩ := hlk k hk
    simp [hx]
  rw [if_pos hcheck]
  apply mapM_ok_of_forall
  rintro ⟨k, fr⟩ _
  unfold computeOne
  by_cases hin : inComputeRange (objOfRead file (viewOf v minor sheetVer n)) k = true
  · simp only [hin, if_true]
    have hin' : (k.1 < v.frameCount ∧ k.2.1 ∈ depthSeq v.flags minor v.depth) ∧ k.2.2 < v.mipCount := by
      simpa [inComputeRange, objOfRead, viewOf, hd, hmax, Bool.and_eq_true] using hin
    obtain ⟨out, hout, _, _⟩ := levelAfter_ok_lazy (objOfRead file (viewOf v minor sheetVer n)).frames 4
      k.1 k.2.1 a b (by decide) k.2.2 (by
        intro j hj
        exact hlk (k.1, k.2.1, j) ((mem_fileKeys _ _ _ _).mpr ⟨hin'.1.1, hin'.1.2, by simp; omega⟩))
    exact ⟨(k, out), by simp [hout]⟩
  · simp only [hin, Bool.false_eq_true, if_false]
    exact ⟨_, rfl⟩

theorem half_pow2 (x lw : Nat) (h : 2 ^ x / 2 = lw) (hl : 1 ≤ lw) : 2 * lw = 2 ^ x := by
  cases x with
  | zero => simp at h; omega
  | succ x => rw [Nat.pow_succ] at h ⊢; omega

theorem lowStep_ok (frames : List (Key × FrameM)) (side : Nat) (low : FrameM) (m x y : Nat)
    (fr : FrameM) (hl : lookupFrame frames (0, side, m) = some fr) (hw : fr.w = 2 ^ x) (hh : fr.h = 2 ^ y)
    (h1 : 1 ≤ low.w) (h2 : 1 ≤ low.h) : ∃ low', lowStep frames side 4 low m = .ok low' := by
  unfold lowStep
  simp only [hl, bind, Except.bind, pure, Except.pure]
  by_cases hm : (fr.w / 2 == low.w && fr.h / 2 == low.h) = true
  · simp only [hm, if_true]
    simp only [Bool.and_eq_true, beq_iff_eq] at hm
    have e1 : 2 * low.w = fr.w := by rw [hw] at hm ⊢; exact half_pow2 _ _ hm.1 h1
    have e2 : 2 * low.h = fr.h := by rw [hh] at hm ⊢; exact half_pow2 _ _ hm.2 h2
    have hok : rescaleOK low.w low.h fr.w fr.h = true := by simp [rescaleOK, e1, e2]
    simp only [hok, Bool.not_true, Bool.false_eq_true, if_false]
    cases hd : fr.data with
    | none => exact ⟨_, rfl⟩
    | some d =>
      obtain ⟨out, hout⟩ := scaleDown_isSome 4 fr.w fr.h low.w low.h d (by decide)
      simp only [hout]
      exact ⟨_, rfl⟩
  · simp only [hm, Bool.false_eq_true, if_false]
    exact ⟨_, rfl⟩

theorem foldlM_lowStep_ok (frames : List (Key × FrameM)) (side a b : Nat) :
    ∀ (ms : List Nat) (low : FrameM), 1 ≤ low.w → 1 ≤ low.h →
      (∀ m ∈ ms, ∃ fr, lookupFrame frames (0, side, m) = some fr ∧ fr.w = 2 ^ (a - m) ∧ fr.h = 2 ^ (b - m)) →
      ∃ low', ms.foldlM (lowStep frames side 4) low = .ok low' := by
  intro ms
  induction ms with
  | nil => intro low _ _ _; exact ⟨low, rfl⟩
  | cons m ms ih =>
    intro low h1 h2 hfr
    obtain ⟨fr, hl, hw, hh⟩ := hfr m (by simp)
    obtain ⟨l1, hl1⟩ := lowStep_ok frames side low m _ _ fr hl hw hh h1 h2
    have hd := lowStep_dims _ _ _ _ _ _ hl1
    obtain ⟨l2, hl2⟩ := ih l1 (by rw [hd.1]; exact h1) (by rw [hd.2.1]; exact h2)
      (fun m' hm' => hfr m' (by simp [hm']))
    exact ⟨l2, by rw [List.foldlM_cons, hl1]; exact hl2⟩

/-- `compute_mipmaps()` cannot fail on the object read from a saved power-of-two texture. -/
theorem applyCompute_objOfRead_ok (v : Vtf) (minor sheetVer n a b : Nat) (file : List Nat)
    (hd : viewDepth v minor = v.depth) (hdep : 1 ≤ v.depth) (hr : resaveWF v a b) :
    ∃ o', applyCompute (objOfRead file (viewOf v minor sheetVer n)) 4 = .ok o' := by
  obtain ⟨frames', hm⟩ := computeMips_objOfRead_ok v minor sheetVer n a b file hd hr
  obtain ⟨hw, hh, hmc, hlowwf⟩ := hr
  have hlow : ∃ low', computeLow (objOfRead file (viewOf v minor sheetVer n)) frames' 4 = .ok low' := by
    unfold computeLow
    by_cases hn : v.lowFmt = fmtNone
    · have : (objOfRead file (viewOf v minor sheetVer n)).lowFmt = fmtNone := by simpa [objOfRead, viewOf] using hn
      simp only [this, ne_eq, not_true_eq_false, if_false]
      exact ⟨_, rfl⟩
    · have hne : (objOfRead file (viewOf v minor sheetVer n)).lowFmt ≠ fmtNone := by
        simpa [objOfRead, viewOf] using hn
      obtain ⟨hlw, hlh, hfc⟩ := hlowwf hn
      simp only [hne, ne_eq, not_false_eq_true, if_true]
      apply foldlM_lowStep_ok frames' _ a b
      · simpa [objOfRead, viewOf] using hlw
      · simpa [objOfRead, viewOf] using hlh
      · intro m hmem
        have hmlt : m < v.mipCount := by simpa [objOfRead, viewOf] using hmem
        -- the key (0, side, m) is one of the file's keys
        have hside : (if (objOfRead file (viewOf v minor sheetVer n)).flags &&& envmapFlag ≠ 0 then 3 else 0)
            ∈ depthSeq v.flags minor v.depth := by
          have hfl : (objOfRead file (viewOf v minor sheetVer n)).flags = v.flags := by simp [objOfRead, viewOf]
          rw [hfl, mem_depthSeq]
          unfold sideCount
          split
          · split <;> omega
          · omega
        have hk := (mem_fileKeys v.mipCount v.frameCount (depthSeq v.flags minor v.depth)
          (0, (if (objOfRead file (viewOf v minor sheetVer n)).flags &&& envmapFlag ≠ 0 then 3 else 0), m)).mpr
          ⟨by show 0 < v.frameCount; omega, hside, hmlt⟩
        obtain ⟨x, hx⟩ := objOfRead_lookup v minor sheetVer n a b file hd hw hh _ hk
        rcases computeMips_lookup _ 4 frames' hm _ with ⟨h1, _⟩ | ⟨fr, fr', h1, h2, hs⟩
        · rw [hx] at h1; cases h1
        · rw [hx] at h1
          cases h1
          exact ⟨fr', h2, hs.1, hs.2.1⟩
  obtain ⟨low', hl⟩ := hlow
  refine ⟨{ objOfRead file (viewOf v minor sheetVer n) with frames := frames', low := low' }, ?_⟩
  simp [applyCompute, hm, hl]

end C15
