import Srctools.Proofs.C15Compute
/-!
# C15 — saving the object obtained by reading a saved file reproduces the file
-/
namespace C15

/-- the pixels `Frame.load()` would read for a lazily read frame (`none` if the file is too short
or the format has no loader). -/
def decodeOpt (file : List Nat) (fmt w h off : Nat) : Option (List Nat) :=
  match decodeAt file fmt w h off with
  | .ok d => some d
  | .error _ => none

/-- **The object `VTF.read` returns** for a file whose view is `vw`: every frame and the thumbnail
are lazy (no data yet, content = what `load()` will decode from the file). -/
def objOfRead (file : List Nat) (vw : View) : Vtf :=
  { width := vw.width, height := vw.height, depth := vw.depth, verMinor := vw.verMinor, flags := vw.flags,
    frameCount := vw.frameCount, firstFrame := vw.firstFrame, refl := vw.refl, bump := vw.bump,
    fmt := vw.fmt, lowFmt := vw.lowFmt, mipCount := vw.mipCount,
    low := ⟨vw.lowW, vw.lowH, none,
      match vw.lowOff with
      | some o => decodeOpt file vw.lowFmt vw.lowW vw.lowH o
      | none => none⟩,
    frames := vw.frames.map fun e => (e.1, ⟨e.2.1, e.2.2.1, none, decodeOpt file vw.fmt e.2.1 e.2.2.1 e.2.2.2⟩),
    res := vw.res, sheet := vw.sheet }

/-! ### what is written does not change under the reader's normalisations -/

theorem resBlocks_norm (rs : List Res) : resBlocks (rs.map normRes) = resBlocks rs := by
  induction rs with
  | nil => rfl
  | cons r rs ih => by_cases hb : r.isBytes <;> simp [resBlocks, normRes, hb, ih]

theorem resOffsets_norm (rs : List Res) : ∀ s, resOffsets s (rs.map normRes) = resOffsets s rs := by
  induction rs with
  | nil => intro _; rfl
  | cons r rs ih => intro s; by_cases hb : r.isBytes <;> simp [resOffsets, normRes, hb, ih]

theorem and_fd_idem (f : Nat) : f &&& 0xFD &&& 0xFD = f &&& 0xFD := by
  rw [Nat.and_assoc]; rfl

theorem or_2_idem (f : Nat) : f ||| 2 ||| 2 = f ||| 2 := by
  rw [Nat.or_assoc]; rfl

theorem resEntries_norm (rs : List Res) : ∀ os, resEntries (rs.map normRes) os = resEntries rs os := by
  induction rs with
  | nil => intro _; rfl
  | cons r rs ih =>
    intro os
    cases os with
    | nil => rfl
    | cons o os =>
      by_cases hb : r.isBytes <;>
        simp [resEntries, resEntry, normRes, hb, ih, and_fd_idem, or_2_idem]

theorem sheetFrameBytes_norm (ver : Nat) (fr : SheetFrame) (h : frameWF fr = true) :
    sheetFrameBytes ver (normFrame ver fr) = sheetFrameBytes ver fr := by
  simp only [frameWF, Bool.and_eq_true, beq_iff_eq] at h
  by_cases hv : ver = 1
  · simp [normFrame, hv]
  · have h16 : (fr.coords.take 16).length = 16 := by simp [h.2]
    simp only [sheetFrameBytes, normFrame, hv, if_false, List.append_assoc]
    rw [List.take_append_of_le_length (by omega), List.take_of_length_le (by omega)]

theorem sheetSeqBytes_norm (ver : Nat) (s : SheetSeq) (h : seqWF s = true) :
    sheetSeqBytes ver (normSeq ver s) = sheetSeqBytes ver s := by
  simp only [seqWF, Bool.and_eq_true] at h
  have hall := List.all_eq_true.mp h.2
  simp only [sheetSeqBytes, normSeq, List.length_map, List.map_map]
  congr 2
  apply List.map_congr_left
  intro fr hfr
  exact sheetFrameBytes_norm ver fr (hall fr hfr)

theorem sheetData_norm (ver : Nat) (seqs : List SheetSeq) (h : seqs.all seqWF = true) :
    sheetData (seqs.map (normSeq ver)) ver = sheetData seqs ver := by
  simp only [sheetData, List.length_map, List.map_map]
  congr 2
  apply List.map_congr_left
  intro s hs
  exact sheetSeqBytes_norm ver s (List.all_eq_true.mp h s hs)

theorem saveWF_depth (v : Vtf) (minor sheetVer : Nat) (hwf : saveWF v minor sheetVer = true) :
    viewDepth v minor = v.depth := by
  simp only [saveWF, Bool.and_eq_true, decide_eq_true_eq] at hwf
  obtain ⟨⟨_, hd1⟩, hd2⟩ := hwf
  unfold viewDepth
  split
  · rw [if_neg (by omega)]
  · exact (hd2 (by omega)).symm

theorem saveWF_sheet (v : Vtf) (minor sheetVer : Nat) (hwf : saveWF v minor sheetVer = true) :
    v.sheet.all seqWF = true := by
  simp only [saveWF, fileWF, resPartWF, sheetWF, Bool.and_eq_true, decide_eq_true_eq] at hwf
  exact hwf.1.1.1.2.1.1.1.2.1.2

theorem fileBytes_objOfRead (v : Vtf) (minor sheetVer : Nat) (asw : Bool) (file lowBytes : List Nat)
    (blocks : List (List Nat)) (n : Nat) (hwf : saveWF v minor sheetVer = true) :
    fileBytes (objOfRead file (viewOf v minor sheetVer n)) minor sheetVer asw lowBytes blocks
      = fileBytes v minor sheetVer asw lowBytes blocks := by
  have hd := saveWF_depth v minor sheetVer hwf
  have hs := saveWF_sheet v minor sheetVer hwf
  by_cases hm : minor ≥ 3
  · simp [fileBytes, hdrFields, resTable, dataBlocks, sheetBlock, lowOff, sheetOff, headerSize, resCount,
      hasSheetRes, objOfRead, viewOf, hm, hd, resBlocks_norm, resOffsets_norm, resEntries_norm,
      sheetData_norm sheetVer v.sheet hs]
  · simp [fileBytes, hdrFields, resTable, dataBlocks, sheetBlock, lowOff, headerSize,
      hasSheetRes, objOfRead, viewOf, hm, hd]

/-! ### keys are distinct, lookups in the read object -/

theorem fileKeys_nodup (mc fc : Nat) (dseq : List Nat) (hd : dseq.Nodup) : (fileKeys mc fc dseq).Nodup := by
  unfold fileKeys List.Nodup
  rw [List.pairwise_flatMap]
  constructor
  · intro m _
    rw [List.pairwise_flatMap]
    constructor
    · intro f _
      rw [List.pairwise_map]
      exact List.Pairwise.imp (fun hne heq => hne (by simpa using heq)) hd
    · refine List.Pairwise.imp ?_ (List.nodup_range (n := fc))
      intro f1 f2 hne x hx y hy heq
      simp only [List.mem_map] at hx hy
      obtain ⟨_, _, rfl⟩ := hx
      obtain ⟨_, _, rfl⟩ := hy
      exact hne (by simpa using congrArg Prod.fst heq)
  · have hr : List.Pairwise (· ≠ ·) (List.range mc).reverse := by
      rw [List.pairwise_reverse]
      exact List.Pairwise.imp (fun h => Ne.symm h) (List.nodup_range (n := mc))
    refine List.Pairwise.imp ?_ hr
    intro m1 m2 hne x hx y hy heq
    simp only [List.mem_flatMap, List.mem_map] at hx hy
    obtain ⟨_, _, _, _, rfl⟩ := hx
    obtain ⟨_, _, _, _, rfl⟩ := hy
    exact hne (by simpa using congrArg (fun k => k.2.2) heq)

theorem depthSeq_nodup (flags minor depth : Nat) : (depthSeq flags minor depth).Nodup := by
  unfold depthSeq
  split
  · split <;> exact List.nodup_range
  · exact List.nodup_range

theorem lookup_map_of_mem {α : Type} (g : α → FrameM) (key : α → Key) :
    ∀ (l : List α), (l.map key).Nodup → ∀ e ∈ l,
      lookupFrame (l.map fun a => (key a, g a)) (key e) = some (g e) := by
  intro l
  induction l with
  | nil => intro _ e he; simp at he
  | cons a l ih =>
    intro hnd e he
    simp only [List.map_cons, List.nodup_cons] at hnd
    by_cases hk : key a = key e
    · have : a = e ∨ e ∈ l := by simpa [eq_comm] using he
      rcases this with rfl | hin
      · simp [lookupFrame]
      · exact absurd (List.mem_map.mpr ⟨e, hin, hk.symm⟩) hnd.1
    · have hne : (key a == key e) = false := by simpa using hk
      have hin : e ∈ l := by
        rcases List.mem_cons.mp he with rfl | h
        · exact absurd rfl hk
        · exact h
      have := ih hnd.2 e hin
      simpa [lookupFrame, List.find?_cons, hne] using this

theorem forall2_mem_right {α β : Type} {R : α → β → Prop} :
    ∀ {l₁ : List α} {l₂ : List β}, List.Forall₂ R l₁ l₂ → ∀ b ∈ l₂, ∃ a ∈ l₁, R a b := by
  intro l₁ l₂ h
  induction h with
  | nil => intro b hb; simp at hb
  | cons hab _ ih =>
    intro b hb
    rcases List.mem_cons.mp hb with rfl | hb'
    · exact ⟨_, by simp, hab⟩
    · obtain ⟨a, ha, hr⟩ := ih b hb'
      exact ⟨a, by simp [ha], hr⟩

theorem forall2_mem_left {α β : Type} {R : α → β → Prop} :
    ∀ {l₁ : List α} {l₂ : List β}, List.Forall₂ R l₁ l₂ → ∀ a ∈ l₁, ∃ b ∈ l₂, R a b := by
  intro l₁ l₂ h
  induction h with
  | nil => intro a ha; simp at ha
  | cons hab _ ih =>
    intro a ha
    rcases List.mem_cons.mp ha with rfl | ha'
    · exact ⟨_, by simp, hab⟩
    · obtain ⟨b, hb, hr⟩ := ih a ha'
      exact ⟨b, by simp [hb], hr⟩

theorem mapM_congr_mem {α β : Type} (f g : α → Except Err β) :
    ∀ (l : List α), (∀ a ∈ l, f a = g a) → l.mapM f = l.mapM g := by
  intro l
  induction l with
  | nil => intro _; rfl
  | cons a l ih =>
    intro h
    rw [List.mapM_cons, List.mapM_cons, h a (by simp), ih (fun a' ha' => h a' (by simp [ha']))]

theorem quantImg_length (i : Nat) (px : List Nat) : (quantImg i px).length = 4 * (px.length / 4) := by
  unfold quantImg
  rw [length_flatMap_const 4 _ _ (fun q _ => by simp [Px.toList])]
  simp [chunks, chunksAux_length]

/-- every byte of every image that will be written is a byte. -/
def pixelsWF (v : Vtf) (minor : Nat) : Bool :=
  (v.low.load.data.getD []).all (· < 256) &&
  (fileKeys v.mipCount v.frameCount (depthSeq v.flags minor v.depth)).all fun k =>
    match frameFor v k with
    | .ok fr => (fr.load.data.getD []).all (· < 256)
    | .error _ => true

/-- image and thumbnail formats obey the codec laws (all writable ones but RGB565 / BGR565). -/
def formatsLawful (v : Vtf) : Bool :=
  lawfulInds.contains v.fmt && (v.lowFmt == fmtNone || lawfulInds.contains v.lowFmt)

/-- A lazily read frame whose block in the file is `save_<fmt> data` re-encodes to that block,
given the codec's idempotence on `data`. -/
theorem reencode (fmt w h off : Nat) (file data : List Nat)
    (hsave : (codecOf fmt).hasSave = true) (hload : (codecOf fmt).hasLoad = true)
    (hne : (codecOf fmt).load.isEmpty = false)
    (hlen : data.length = 4 * w * h)
    (hs : slice file off (frameSize (fmtOf fmt) w h) = saveImg (codecOf fmt) data)
    (hid : saveImg (codecOf fmt) (loadImg (codecOf fmt) (saveImg (codecOf fmt) data))
      = saveImg (codecOf fmt) data)
    (hll : (loadImg (codecOf fmt) (saveImg (codecOf fmt) data)).length = 4 * w * h) :
    encodeFrame fmt (FrameM.load ⟨w, h, none, decodeOpt file fmt w h off⟩)
      = .ok (saveImg (codecOf fmt) data) := by
  have E : encodeFrame fmt ⟨w, h, some data, none⟩ = .ok (saveImg (codecOf fmt) data) := by
    simp [encodeFrame, hlen, hsave, pure, Except.pure]
  have hl := (encodeFrame_ok _ _ _ E).2.2.2
  simp only at hl
  have hdec : decodeOpt file fmt w h off = some (loadImg (codecOf fmt) (saveImg (codecOf fmt) data)) := by
    simp [decodeOpt, decodeAt, hs, hl, hload, hne, pure, Except.pure]
  simp [FrameM.load, hdec, encodeFrame, hll, hsave, hid, pure, Except.pure]

theorem encodeFrame_load_some (fmt : Nat) (fr : FrameM) (bs : List Nat)
    (h : encodeFrame fmt fr.load = .ok bs) :
    bs = saveImg (codecOf fmt) (fr.load.data.getD []) ∧
    (fr.load.data.getD []).length = 4 * fr.w * fr.h := by
  have E := encodeFrame_ok _ _ _ h
  obtain ⟨d, hd⟩ := load_data_some fr
  rw [hd] at E ⊢
  simp only [Option.getD_some, (load_dims fr).1, (load_dims fr).2] at E ⊢
  exact ⟨E.1, E.2.1⟩

theorem lawful_facts (i : Nat) (hi : i ∈ lawfulInds) :
    (codecOf i).hasSave = true ∧ (codecOf i).hasLoad = true ∧ (codecOf i).load.isEmpty = false := by
  have : lawfulInds.all (fun i => (codecOf i).hasSave && (codecOf i).hasLoad && !(codecOf i).load.isEmpty) = true := by
    decide
  have h2 := List.all_eq_true.mp this i hi
  simp only [Bool.and_eq_true, Bool.not_eq_true'] at h2
  exact ⟨h2.1.1, h2.1.2, h2.2⟩

/-- `compute_mipmaps` on an object whose frames to be written are all lazy changes nothing of what
`save` lays out: every lazy frame loads its file content afterwards. -/
theorem assemble_applyCompute_lazy (o o' : Vtf) (filt minor sheetVer : Nat) (asw : Bool)
    (hc : applyCompute o filt = .ok o')
    (hlow : o.lowFmt ≠ fmtNone → ∃ d, o.low.fileData = some d)
    (hfr : ∀ k ∈ fileKeys o.mipCount o.frameCount (depthSeq o.flags minor o.depth),
      ∀ fr, frameFor o k = .ok fr → ∃ d, fr.fileData = some d) :
    assemble o' minor sheetVer asw = assemble o minor sheetVer asw := by
  obtain ⟨frames', low', rfl, hm, _, hw, hh, hfd⟩ := applyCompute_shape o o' filt hc
  have hlowE : encodeLow { o with frames := frames', low := low' } = encodeLow o := by
    unfold encodeLow
    by_cases hn : o.lowFmt = fmtNone
    · simp [hn]
    · obtain ⟨d, hd⟩ := hlow hn
      have e1 : low'.load = ⟨o.low.w, o.low.h, some d, none⟩ := by
        simp [FrameM.load, hfd, hd, hw, hh]
      have e2 : o.low.load = ⟨o.low.w, o.low.h, some d, none⟩ := by
        simp [FrameM.load, hd]
      simp [hn, e1, e2]
  have hblocks : (fileKeys o.mipCount o.frameCount (depthSeq o.flags minor o.depth)).mapM
      (encodeKey { o with frames := frames', low := low' })
      = (fileKeys o.mipCount o.frameCount (depthSeq o.flags minor o.depth)).mapM (encodeKey o) := by
    apply mapM_congr_mem
    intro k hk
    rcases frameFor_same o frames' low' filt hm k with ⟨e, h1, h2⟩ | ⟨fr, fr', h1, h2, hs⟩
    · simp [encodeKey, h1, h2]
    · obtain ⟨d, hd⟩ := hfr k hk fr h1
      have e1 : fr'.load = ⟨fr.w, fr.h, some d, none⟩ := by
        have hdat := hs.2.2 d hd
        have hdim := load_dims fr'
        have hfdn : fr'.load.fileData = none := by
          unfold FrameM.load; split <;> simp_all
        cases hl : fr'.load with
        | mk w h data fdata =>
          rw [hl] at hdat hdim hfdn
          simp only at hdat hdim hfdn
          rw [hdim.1, hdim.2, hdat, hfdn, hs.1, hs.2.1]
      have e2 : fr.load = ⟨fr.w, fr.h, some d, none⟩ := by simp [FrameM.load, hd]
      simp [encodeKey, h1, h2, e1, e2]
  unfold assemble
  rw [hlowE]
  simp only [hblocks]
  have hfb : ∀ lb bl, fileBytes { o with frames := frames', low := low' } minor sheetVer asw lb bl
      = fileBytes o minor sheetVer asw lb bl := by
    intro lb bl
    simp [fileBytes, hdrFields, resTable, dataBlocks, sheetBlock, lowOff, sheetOff, headerSize, resCount,
      hasSheetRes, hw, hh]
  simp only [hfb]

end C15
