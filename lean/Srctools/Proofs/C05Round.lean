import Srctools.Proofs.C05
import Mathlib.Data.Rat.Lemmas
set_option exponentiation.threshold 3000
/-! C05, second proofs file: IEEE binary64 round-to-nearest-even **is** a `RoundingSystem`, and the bit model's
`x % 360.0 % 360.0` is the abstract `norm2Q` of that system. -/

namespace B64

theorem roundHE_ge (n d : Nat) : n / d ≤ roundHE n d := by
  unfold roundHE
  simp only
  split
  · omega
  · split
    · omega
    · split <;> omega

theorem quantExp_le_of_le {a b : Nat} (h : a ≤ b) : quantExp a ≤ quantExp b := by
  unfold quantExp
  by_cases ha : a = 0
  · subst ha
    have : Nat.log2 0 = 0 := by decide
    omega
  · have hb : b ≠ 0 := by omega
    have : a.log2 ≤ b.log2 := by
      rw [Nat.le_log2 hb]
      exact Nat.le_trans (Nat.log2_self_le ha) h
    omega

/-- every natural up to 2^53 is a representable magnitude -/
theorem rep_le_2p53 (r : Nat) (h : r ≤ 2 ^ 53) : Rep r := by
  rcases Nat.lt_or_ge r (2 ^ 53) with hlt | hge
  · unfold Rep quantExp
    have : r.log2 - 52 = 0 := by
      by_cases h0 : r = 0
      · subst h0; decide
      · have := (Nat.log2_lt h0).2 hlt
        omega
    rw [this]; simp
  · have : r = 2 ^ 53 := by omega
    subst this
    show 2 ^ quantExp (2 ^ 53) ∣ 2 ^ 53
    have : quantExp (2 ^ 53) = 1 := by decide +kernel
    rw [this]
    exact Nat.pow_dvd_pow 2 (by decide)

/-- a multiple `r·2^k` with `2^52 ≤ r ≤ 2^53` is representable -/
theorem rep_binade (r k : Nat) (hlo : 2 ^ 52 ≤ r) (hhi : r ≤ 2 ^ 53) : Rep (r * 2 ^ k) := by
  have hp : 0 < 2 ^ k := Nat.pow_pos (by decide)
  rcases Nat.lt_or_ge r (2 ^ 53) with hlt | hge
  · have hm : r * 2 ^ k ≠ 0 := by
      have : 0 < r * 2 ^ k := Nat.mul_pos (by omega) hp
      omega
    have hlog : (r * 2 ^ k).log2 = 52 + k := by
      rw [Nat.log2_eq_iff hm]
      constructor
      · rw [Nat.pow_add]; exact Nat.mul_le_mul_right _ hlo
      · rw [show 52 + k + 1 = 53 + k by omega, Nat.pow_add]
        exact Nat.mul_lt_mul_of_pos_right hlt hp
    unfold Rep quantExp
    rw [hlog, show 52 + k - 52 = k by omega]
    exact Dvd.intro_left _ rfl
  · have : r = 2 ^ 53 := by omega
    subst this
    have hm : 2 ^ 53 * 2 ^ k ≠ 0 := by
      have : 0 < 2 ^ 53 * 2 ^ k := Nat.mul_pos (by decide) hp
      omega
    have hlog : (2 ^ 53 * 2 ^ k).log2 = 53 + k := by
      rw [Nat.log2_eq_iff hm, ← Nat.pow_add]
      exact ⟨Nat.le_refl _, Nat.pow_lt_pow_right (by decide) (by omega)⟩
    unfold Rep quantExp
    rw [hlog, show 53 + k - 52 = k + 1 by omega, ← Nat.pow_add]
    exact Nat.pow_dvd_pow 2 (by omega)

/-- the result of rounding is a representable magnitude -/
theorem roundMag_rep' (n d : Nat) (hd : 0 < d) : Rep (roundMag n d) := by
  unfold roundMag
  simp only
  have hp : 0 < 2 ^ quantExp (n / d) := Nat.pow_pos (by decide)
  have hD : 0 < d * 2 ^ quantExp (n / d) := Nat.mul_pos hd hp
  have hge := roundHE_ge n (d * 2 ^ quantExp (n / d))
  have hle := roundHE_le n (d * 2 ^ quantExp (n / d))
  have hdd : n / (d * 2 ^ quantExp (n / d)) = n / d / 2 ^ quantExp (n / d) := (Nat.div_div_eq_div_mul _ _ _).symm
  rw [hdd] at hge hle
  by_cases hk : quantExp (n / d) = 0
  · rw [hk] at hge hle ⊢
    simp only [Nat.pow_zero, Nat.div_one, Nat.mul_one] at hge hle ⊢
    apply rep_le_2p53
    have : n / d < 2 ^ 53 := by
      by_cases h0 : n / d = 0
      · rw [h0]; decide
      · rw [← Nat.log2_lt h0]
        unfold quantExp at hk; omega
    omega
  · have hq0 : n / d ≠ 0 := by
      intro h0; apply hk; rw [h0]; decide
    have hlog : (n / d).log2 = 52 + quantExp (n / d) := by
      unfold quantExp at hk ⊢; omega
    have hlo : 2 ^ (52 + quantExp (n / d)) ≤ n / d := by
      rw [← hlog]; exact Nat.log2_self_le hq0
    have hhi : n / d < 2 ^ (53 + quantExp (n / d)) := by
      have := @Nat.lt_log2_self (n / d)
      rw [hlog, show 52 + quantExp (n / d) + 1 = 53 + quantExp (n / d) by omega] at this
      exact this
    generalize quantExp (n / d) = k at *
    have h1 : 2 ^ 52 ≤ n / d / 2 ^ k := by
      rw [Nat.le_div_iff_mul_le hp, ← Nat.pow_add]; exact hlo
    have h2 : n / d / 2 ^ k < 2 ^ 53 := by
      rw [Nat.div_lt_iff_lt_mul hp, ← Nat.pow_add]; exact hhi
    exact rep_binade _ k (by omega) (by omega)

end B64

namespace B64

/-- distance to `n/d` scaled by `d` -/
theorem abs_sub_div (x n d : Rat) (hd : 0 < d) : |x - n / d| = |x * d - n| / d := by
  have : x - n / d = (x * d - n) / d := by field_simp
  rw [this, abs_div, abs_of_pos hd]

/-- among the multiples of the quantum, the rounded value is a nearest one -/
theorem roundHE_nearest_mult (n d k j : Nat) (hd : 0 < d) :
    |((roundHE n (d * 2 ^ k) * 2 ^ k : Nat) : Rat) - (n : Rat) / (d : Rat)| ≤
      |((j * 2 ^ k : Nat) : Rat) - (n : Rat) / (d : Rat)| := by
  have hp : 0 < 2 ^ k := Nat.pow_pos (by decide)
  have hD : 0 < d * 2 ^ k := Nat.mul_pos hd hp
  obtain ⟨s1, s2⟩ := roundHE_spec n (d * 2 ^ k) hD
  generalize roundHE n (d * 2 ^ k) = r at s1 s2
  have hdq : (0 : Rat) < (d : Rat) := by exact_mod_cast hd
  rw [abs_sub_div _ _ _ hdq, abs_sub_div _ _ _ hdq]
  apply div_le_div_of_nonneg_right _ (le_of_lt hdq)
  -- in terms of D = d·2^k
  have e1 : ((r * 2 ^ k : Nat) : Rat) * (d : Rat) = ((r * (d * 2 ^ k) : Nat) : Rat) := by push_cast; ring
  have e2 : ((j * 2 ^ k : Nat) : Rat) * (d : Rat) = ((j * (d * 2 ^ k) : Nat) : Rat) := by push_cast; ring
  rw [e1, e2]
  generalize d * 2 ^ k = D at *
  have c1 : (2 : Rat) * ((r * D : Nat) : Rat) ≤ 2 * (n : Rat) + (D : Rat) := by exact_mod_cast s1
  have c2 : (2 : Rat) * (n : Rat) ≤ 2 * ((r * D : Nat) : Rat) + (D : Rat) := by exact_mod_cast s2
  have hDq : (0 : Rat) < (D : Rat) := by exact_mod_cast hD
  have hr : |((r * D : Nat) : Rat) - (n : Rat)| ≤ (D : Rat) / 2 := by
    rw [abs_le]; constructor <;> linarith
  rcases Nat.lt_trichotomy j r with hlt | heq | hgt
  · have : (j + 1) * D ≤ r * D := Nat.mul_le_mul_right _ hlt
    have c3 : ((j * D : Nat) : Rat) + (D : Rat) ≤ ((r * D : Nat) : Rat) := by
      have : j * D + D ≤ r * D := by rw [Nat.add_mul] at this; simpa using this
      exact_mod_cast this
    have : (D : Rat) / 2 ≤ -(((j * D : Nat) : Rat) - (n : Rat)) := by linarith
    exact le_trans hr (le_trans this (neg_le_abs _))
  · rw [heq]
  · have : (r + 1) * D ≤ j * D := Nat.mul_le_mul_right _ hgt
    have c3 : ((r * D : Nat) : Rat) + (D : Rat) ≤ ((j * D : Nat) : Rat) := by
      have : r * D + D ≤ j * D := by rw [Nat.add_mul] at this; simpa using this
      exact_mod_cast this
    have : (D : Rat) / 2 ≤ ((j * D : Nat) : Rat) - (n : Rat) := by linarith
    exact le_trans hr (le_trans this (le_abs_self _))

/-- a representable magnitude at or above `2^(52+k)` is a multiple of `2^k` -/
theorem rep_multiple (s k : Nat) (hs : Rep s) (h : 2 ^ (52 + k) ≤ s) : 2 ^ k ∣ s := by
  have hs0 : s ≠ 0 := by
    have : 0 < 2 ^ (52 + k) := Nat.pow_pos (by decide)
    omega
  have : k ≤ quantExp s := by
    unfold quantExp
    have := (Nat.le_log2 hs0).2 h
    omega
  exact Nat.dvd_trans (Nat.pow_dvd_pow 2 this) hs

/-- **the rounded value is a nearest representable magnitude** -/
theorem roundMag_nearest (n d s : Nat) (hd : 0 < d) (hs : Rep s) :
    |((roundMag n d : Nat) : Rat) - (n : Rat) / (d : Rat)| ≤ |((s : Nat) : Rat) - (n : Rat) / (d : Rat)| := by
  unfold roundMag
  simp only
  by_cases hk : quantExp (n / d) = 0
  · rw [hk]
    have := roundHE_nearest_mult n d 0 s hd
    simpa using this
  · have hq0 : n / d ≠ 0 := by
      intro h0; apply hk; rw [h0]; decide
    have hlog : (n / d).log2 = 52 + quantExp (n / d) := by
      unfold quantExp at hk ⊢; omega
    have hlo : 2 ^ (52 + quantExp (n / d)) ≤ n / d := by
      rw [← hlog]; exact Nat.log2_self_le hq0
    generalize quantExp (n / d) = k at *
    by_cases hdv : 2 ^ k ∣ s
    · obtain ⟨j, hj⟩ := hdv
      have := roundHE_nearest_mult n d k j hd
      rw [hj, Nat.mul_comm (2 ^ k) j]; exact this
    · -- s lies below the binade of n/d
      have hsl : s < 2 ^ (52 + k) := by
        by_contra hc
        exact hdv (rep_multiple s k hs (Nat.le_of_not_lt hc))
      have hL := roundHE_nearest_mult n d k (2 ^ 52) hd
      rw [← Nat.pow_add] at hL
      refine le_trans hL ?_
      have hdq : (0 : Rat) < (d : Rat) := by exact_mod_cast hd
      have hLq : ((2 ^ (52 + k) : Nat) : Rat) ≤ (n : Rat) / (d : Rat) := by
        rw [le_div_iff₀ hdq]
        have : 2 ^ (52 + k) * d ≤ n := by
          have := Nat.mul_le_mul_right d hlo
          exact Nat.le_trans this (Nat.div_mul_le_self n d)
        exact_mod_cast this
      have hsq : ((s : Nat) : Rat) < ((2 ^ (52 + k) : Nat) : Rat) := by exact_mod_cast hsl
      rw [abs_of_nonpos (by linarith), abs_of_nonpos (by linarith)]
      linarith

end B64

namespace B64

/-- round-to-nearest-even with unbounded exponent range, on a non-negative rational number of units -/
def roundQ (t : Rat) : Rat := ((roundMag t.num.natAbs t.den : Nat) : Rat)

theorem natAbs_num_div_den (t : Rat) (ht : 0 ≤ t) : ((t.num.natAbs : Nat) : Rat) / ((t.den : Nat) : Rat) = t := by
  have h0 : 0 ≤ t.num := Rat.num_nonneg.2 ht
  have : ((t.num.natAbs : Nat) : Rat) = ((t.num : Int) : Rat) := by
    rw [← Int.natAbs_of_nonneg h0]; simp
  rw [this]
  exact Rat.num_div_den t

theorem roundQ_nearest (t : Rat) (ht : 0 ≤ t) (s : Nat) (hs : Rep s) : |roundQ t - t| ≤ |(s : Rat) - t| := by
  have := roundMag_nearest t.num.natAbs t.den s t.den_pos hs
  rw [natAbs_num_div_den t ht] at this
  exact this

theorem roundQ_mono {a b : Rat} (ha : 0 ≤ a) (hab : a ≤ b) : roundQ a ≤ roundQ b := by
  by_contra hc
  have hlt : roundQ b < roundQ a := lt_of_not_ge hc
  have hb : 0 ≤ b := le_trans ha hab
  have h1 := roundQ_nearest a ha (roundMag b.num.natAbs b.den) (roundMag_rep' _ _ b.den_pos)
  have h2 := roundQ_nearest b hb (roundMag a.num.natAbs a.den) (roundMag_rep' _ _ a.den_pos)
  change |roundQ a - a| ≤ |roundQ b - a| at h1
  change |roundQ b - b| ≤ |roundQ a - b| at h2
  have k1 : roundQ b + roundQ a ≤ 2 * a := by
    have := le_abs_self (roundQ a - a)
    rcases abs_cases (roundQ b - a) with ⟨e, _⟩ | ⟨e, _⟩ <;> rw [e] at h1 <;> linarith
  have k2 : 2 * b ≤ roundQ b + roundQ a := by
    have := neg_le_abs (roundQ b - b)
    rcases abs_cases (roundQ a - b) with ⟨e, _⟩ | ⟨e, _⟩ <;> rw [e] at h2 <;> linarith
  have : a = b := le_antisymm hab (by linarith)
  subst this
  exact lt_irrefl _ hlt

theorem roundQ_nonneg (t : Rat) : 0 ≤ roundQ t := by unfold roundQ; exact Nat.cast_nonneg _

theorem roundQ_natCast (m : Nat) (h : Rep m) : roundQ (m : Rat) = (m : Rat) := by
  unfold roundQ
  simp only [Rat.num_natCast, Rat.den_natCast, Int.natAbs_natCast]
  rw [roundMag_rep m h]

theorem U_posQ : (0 : Rat) < (U : Rat) := by exact_mod_cast U_pos

/-- binary64 round-to-nearest-even (exponent range unbounded above) on real values -/
def rndQ (q : Rat) : Rat := if 0 ≤ q then roundQ (q * U) / U else -(roundQ (-q * U) / U)

/-- representable real values: `±m·2^-1074` with `m` a representable magnitude -/
def RepQ (q : Rat) : Prop := ∃ m : Nat, Rep m ∧ |q| = (m : Rat) / (U : Rat)

theorem rndQ_rep (q : Rat) (h : RepQ q) : rndQ q = q := by
  obtain ⟨m, hm, he⟩ := h
  have hU := U_posQ
  unfold rndQ
  split
  · rename_i h0
    rw [abs_of_nonneg h0] at he
    have : q * U = (m : Rat) := by rw [he]; field_simp
    rw [this, roundQ_natCast m hm, he]
  · rename_i h0
    rw [abs_of_neg (lt_of_not_ge h0)] at he
    have : -q * U = (m : Rat) := by rw [he]; field_simp
    rw [this, roundQ_natCast m hm, ← he]; ring

theorem rndQ_mono (a b : Rat) (h : a ≤ b) : rndQ a ≤ rndQ b := by
  have hU := U_posQ
  unfold rndQ
  by_cases ha : 0 ≤ a
  · have hb : 0 ≤ b := le_trans ha h
    simp only [ha, hb, if_true]
    exact div_le_div_of_nonneg_right (roundQ_mono (mul_nonneg ha (le_of_lt hU)) (mul_le_mul_of_nonneg_right h (le_of_lt hU))) (le_of_lt hU)
  · simp only [ha, if_false]
    by_cases hb : 0 ≤ b
    · simp only [hb, if_true]
      have := div_nonneg (roundQ_nonneg (-a * U)) (le_of_lt hU)
      have := div_nonneg (roundQ_nonneg (b * U)) (le_of_lt hU)
      linarith
    · simp only [hb, if_false]
      have hb' : 0 ≤ -b * U := mul_nonneg (by linarith) (le_of_lt hU)
      have hle : -b * U ≤ -a * U := mul_le_mul_of_nonneg_right (by linarith) (le_of_lt hU)
      have := div_le_div_of_nonneg_right (roundQ_mono hb' hle) (le_of_lt hU)
      linarith

theorem rep_M360 : Rep M360 := by
  show 2 ^ quantExp M360 ∣ M360
  have : quantExp M360 = 1030 := by decide +kernel
  rw [this, M360_eq]
  exact Dvd.intro_left (45 * 2 ^ 47) (by rw [Nat.mul_assoc, ← Nat.pow_add])

end B64

namespace C05
open B64

/-- **IEEE binary64 round-to-nearest-even is a rounding system.** -/
def b64RS : RoundingSystem where
  rnd := rndQ
  Rep := RepQ
  rnd_rep := rndQ_rep
  mono := rndQ_mono
  rep_zero := ⟨0, Nat.dvd_zero _, by simp⟩
  rep_360 := ⟨M360, rep_M360, by
    have hU := U_posQ
    rw [abs_of_pos (by norm_num)]
    unfold M360; push_cast; field_simp⟩

end C05

namespace B64

theorem floor_natCast_div (a b : Nat) (hb : 0 < b) : ((a : Rat) / (b : Rat)).floor = ((a / b : Nat) : Int) := by
  have hbq : (0 : Rat) < (b : Rat) := by exact_mod_cast hb
  apply le_antisymm
  · have : ((a : Rat) / (b : Rat)).floor < ((a / b : Nat) : Int) + 1 := by
      rw [Rat.floor_lt_iff, div_lt_iff₀ hbq]
      have := Nat.lt_mul_div_succ a hb
      have h2 : a < (a / b + 1) * b := by rw [Nat.mul_comm]; exact this
      exact_mod_cast h2
    omega
  · rw [Rat.le_floor_iff, le_div_iff₀ hbq]
    have := Nat.div_mul_le_self a b
    exact_mod_cast this

theorem M360_cast : ((M360 : Nat) : Rat) = 360 * (U : Rat) := by unfold M360; push_cast; ring

/-- C `fmod(x, 360.0)` of the bit model is the exact rational `fmodQ` -/
theorem fmodQ_ratOf (s : Bool) (m : Nat) : C05.fmodQ (ratOf s m) 360 = ratOf s (m % M360) := by
  have hU := U_posQ
  have hM := M360_pos
  have hdm : M360 * (m / M360) + m % M360 = m := Nat.div_add_mod m M360
  have hdmq : (360 * (U : Rat)) * ((m / M360 : Nat) : Rat) + ((m % M360 : Nat) : Rat) = (m : Rat) := by
    rw [← M360_cast]; exact_mod_cast hdm
  have hfl : ((m : Rat) / (U : Rat) / 360).floor = ((m / M360 : Nat) : Int) := by
    have : (m : Rat) / (U : Rat) / 360 = (m : Rat) / ((M360 : Nat) : Rat) := by
      rw [M360_cast]; field_simp
    rw [this]; exact floor_natCast_div m M360 hM
  have hpos : (0 : Rat) ≤ (m : Rat) / (U : Rat) := div_nonneg (Nat.cast_nonneg _) (le_of_lt hU)
  have core : (m : Rat) / (U : Rat) - 360 * (((m : Rat) / (U : Rat) / 360).floor : Int) = ((m % M360 : Nat) : Rat) / (U : Rat) := by
    rw [hfl]
    simp only [Int.cast_natCast]
    rw [eq_div_iff (ne_of_gt hU)]
    have h1 : (m : Rat) / (U : Rat) * (U : Rat) = (m : Rat) := by field_simp
    have h2 : ((m : Rat) / (U : Rat) - 360 * ((m / M360 : Nat) : Rat)) * (U : Rat) =
        (m : Rat) / (U : Rat) * (U : Rat) - 360 * (U : Rat) * ((m / M360 : Nat) : Rat) := by ring
    rw [h2, h1]; linarith [hdmq]
  unfold C05.fmodQ ratOf
  cases s with
  | false =>
    simp only [Bool.false_eq_true, if_false, one_mul, hpos, if_true]
    exact core
  | true =>
    simp only [if_true]
    by_cases hm : m = 0
    · subst hm
      have hf0 := Rat.floor_intCast 0
      simp only [Int.cast_zero] at hf0
      simp [hf0]
    · have hlt : ¬ (0 : Rat) ≤ -1 * ((m : Rat) / (U : Rat)) := by
        have : (0 : Rat) < (m : Rat) / (U : Rat) := div_pos (by exact_mod_cast Nat.pos_of_ne_zero hm) hU
        linarith
      simp only [hlt, if_false]
      have e : -(-1 * ((m : Rat) / (U : Rat))) = (m : Rat) / (U : Rat) := by ring
      rw [e, core]; ring

/-- exact outcome of the first `% 360.0` -/
theorem mod360_cases (s : Bool) (m : Nat) :
    mod360 (.fin s m) =
      if m % M360 = 0 then .fin false 0
      else if s then .fin false (roundMag (M360 - m % M360) 1) else .fin false (m % M360) := by
  have hM := M360_pos
  have hlt : m % M360 < M360 := Nat.mod_lt _ hM
  unfold mod360 pyMod
  simp only [c360_eq, fmod]
  have hne : (M360 == 0) = false := by simp; omega
  simp only [hne, Bool.false_eq_true, if_false]
  by_cases hz : m % M360 = 0
  · simp [Val.isZero, hz, Val.signBit]
  · have hz' : (Val.fin s (m % M360)).isZero = false := by
      cases hmm : m % M360 with
      | zero => exact absurd hmm hz
      | succ n => rfl
    simp only [hz', Bool.false_eq_true, if_false, hz]
    cases s with
    | false => simp [Val.ltZero]
    | true =>
      have hlz : (Val.fin true (m % M360)).ltZero = true := by
        simp [Val.ltZero]; exact hz
      have hl0 : (Val.fin false M360).ltZero = false := by simp [Val.ltZero]
      simp only [hlz, hl0]
      simp only [bne_iff_ne, ne_eq, Bool.false_eq_true, not_false_eq_true, if_true]
      rw [add_neg_pos _ _ hlt]
      unfold rnd
      have hle := roundMag_le_M360 (M360 - m % M360) (by omega) (by omega)
      have : roundMag (M360 - m % M360) 1 < maxMag := Nat.lt_of_le_of_lt hle M360_lt_maxMag
      simp only [this, if_true]

theorem roundQ_natCast' (n : Nat) : roundQ (n : Rat) = ((roundMag n 1 : Nat) : Rat) := by
  unfold roundQ
  simp only [Rat.num_natCast, Rat.den_natCast, Int.natAbs_natCast]

/-- the bit model's `x % 360.0` is `pyModQ` of the binary64 rounding system -/
theorem mod360_eq_pyModQ (s : Bool) (m : Nat) :
    ∃ a, mod360 (.fin s m) = .fin false a ∧ ratOf false a = C05.pyModQ C05.b64RS (ratOf s m) 360 := by
  have hU := U_posQ
  have hM := M360_pos
  have hlt : m % M360 < M360 := Nat.mod_lt _ hM
  rw [mod360_cases]
  unfold C05.pyModQ
  simp only [fmodQ_ratOf]
  by_cases hz : m % M360 = 0
  · refine ⟨0, by simp [hz], ?_⟩
    simp [hz, ratOf]
  · have hrpos : (0 : Rat) < ((m % M360 : Nat) : Rat) / (U : Rat) :=
      div_pos (by exact_mod_cast Nat.pos_of_ne_zero hz) hU
    simp only [hz, if_false]
    cases s with
    | false =>
      refine ⟨m % M360, by simp, ?_⟩
      have h1 : ¬ ratOf false (m % M360) = 0 := by unfold ratOf; simp only [Bool.false_eq_true, if_false, one_mul]; exact ne_of_gt hrpos
      have h2 : ¬ ratOf false (m % M360) < 0 := by unfold ratOf; simp only [Bool.false_eq_true, if_false, one_mul]; linarith
      simp only [h1, h2, if_false]
    | true =>
      refine ⟨roundMag (M360 - m % M360) 1, by simp, ?_⟩
      have h1 : ¬ ratOf true (m % M360) = 0 := by unfold ratOf; simp only [if_true]; linarith
      have h2 : ratOf true (m % M360) < 0 := by unfold ratOf; simp only [if_true]; linarith
      simp only [h1, h2, if_false, if_true]
      show _ = rndQ _
      have hsum : ratOf true (m % M360) + 360 = ((M360 - m % M360 : Nat) : Rat) / (U : Rat) := by
        unfold ratOf
        simp only [if_true]
        rw [Nat.cast_sub (le_of_lt hlt), M360_cast]
        field_simp
        ring
      have hnn : (0 : Rat) ≤ ((M360 - m % M360 : Nat) : Rat) / (U : Rat) := div_nonneg (Nat.cast_nonneg _) (le_of_lt hU)
      rw [hsum]
      unfold rndQ
      simp only [hnn, if_true]
      have : ((M360 - m % M360 : Nat) : Rat) / (U : Rat) * (U : Rat) = ((M360 - m % M360 : Nat) : Rat) := by field_simp
      rw [this, roundQ_natCast']
      unfold ratOf; simp

/-- **the bit model's `x % 360.0 % 360.0` is `norm2Q` of the binary64 rounding system** -/
theorem norm360_eq_norm2Q (s : Bool) (m : Nat) :
    ∃ b, norm360 (.fin s m) = .fin false b ∧ ratOf false b = C05.norm2Q C05.b64RS (ratOf s m) := by
  obtain ⟨a, ha, hqa⟩ := mod360_eq_pyModQ s m
  obtain ⟨b, hb, hqb⟩ := mod360_eq_pyModQ false a
  refine ⟨b, ?_, ?_⟩
  · show pyMod (pyMod _ c360) c360 = _
    have h1 : pyMod (Val.fin s m) c360 = .fin false a := ha
    rw [h1]; exact hb
  · unfold C05.norm2Q
    rw [← hqa]; exact hqb

end B64

namespace B64

theorem roundHE_scale (c n d : Nat) (hc : 0 < c) : roundHE (c * n) (c * d) = roundHE n d := by
  unfold roundHE
  simp only [Nat.mul_div_mul_left _ _ hc, Nat.mul_mod_mul_left]
  have e1 : (2 * (c * (n % d)) < c * d) ↔ (2 * (n % d) < d) := by
    rw [show 2 * (c * (n % d)) = c * (2 * (n % d)) by ring]
    exact Nat.mul_lt_mul_left hc
  have e2 : (c * d < 2 * (c * (n % d))) ↔ (d < 2 * (n % d)) := by
    rw [show 2 * (c * (n % d)) = c * (2 * (n % d)) by ring]
    exact Nat.mul_lt_mul_left hc
  simp only [e1, e2]

theorem roundMag_scale (c n d : Nat) (hc : 0 < c) : roundMag (c * n) (c * d) = roundMag n d := by
  unfold roundMag
  simp only [Nat.mul_div_mul_left _ _ hc]
  rw [Nat.mul_assoc, roundHE_scale c n _ hc]

/-- `roundQ` of a fraction does not depend on its representation -/
theorem roundQ_div (n d : Nat) (hd : 0 < d) : roundQ ((n : Rat) / (d : Rat)) = ((roundMag n d : Nat) : Rat) := by
  obtain ⟨c, h1, h2⟩ := Rat.exists_eq_mul_div_num_and_eq_mul_div_den (n : Int) (d := (d : Int)) (by exact_mod_cast (ne_of_gt hd))
  have hq : ((n : Int) : Rat) / ((d : Int) : Rat) = (n : Rat) / (d : Rat) := by simp
  rw [hq] at h1 h2
  set q := (n : Rat) / (d : Rat) with hqd
  have hq0 : 0 ≤ q := div_nonneg (Nat.cast_nonneg _) (Nat.cast_nonneg _)
  have hnum : 0 ≤ q.num := Rat.num_nonneg.2 hq0
  have hcpos : 0 < c := by
    have : (0 : Int) < c * q.den := by rw [← h2]; exact_mod_cast hd
    by_contra hneg
    have hc0 : c ≤ 0 := not_lt.1 hneg
    have : c * (q.den : Int) ≤ 0 := mul_nonpos_of_nonpos_of_nonneg hc0 (by exact_mod_cast Nat.zero_le _)
    omega
  obtain ⟨cn, rfl⟩ : ∃ cn : Nat, c = cn := ⟨c.toNat, (Int.toNat_of_nonneg (le_of_lt hcpos)).symm⟩
  have hcn : 0 < cn := by exact_mod_cast hcpos
  have e1 : n = cn * q.num.natAbs := by
    have : (n : Int) = (cn : Int) * (q.num.natAbs : Int) := by rw [Int.natAbs_of_nonneg hnum]; exact h1
    exact_mod_cast this
  have e2 : d = cn * q.den := by exact_mod_cast h2
  unfold roundQ
  rw [e1, e2, roundMag_scale cn _ _ hcn]


/-- exact rational value of a finite `Val` (0 for inf/nan) -/
def valQ : Val → Rat
  | .fin s m => ratOf s m
  | _ => 0

theorem roundMag_zero (d : Nat) : roundMag 0 d = 0 := by
  unfold roundMag roundHE
  simp

theorem rndQ_zero : rndQ 0 = 0 := by
  unfold rndQ
  simp only [le_refl, if_true, zero_mul]
  have : roundQ 0 = 0 := by
    have := roundQ_natCast' 0
    simp only [Nat.cast_zero] at this
    rw [this, roundMag_zero]; simp
  rw [this]; simp

/-- value of `rndQ` on `±n/d` units -/
theorem rndQ_frac (s : Bool) (n d : Nat) (hd : 0 < d) :
    rndQ ((if s then -1 else 1) * ((n : Rat) / (d : Rat) / (U : Rat))) =
      (if s then -1 else 1) * (((roundMag n d : Nat) : Rat) / (U : Rat)) := by
  have hU := U_posQ
  have hq : (0 : Rat) ≤ (n : Rat) / (d : Rat) / (U : Rat) :=
    div_nonneg (div_nonneg (Nat.cast_nonneg _) (Nat.cast_nonneg _)) (le_of_lt hU)
  have hmulU : (n : Rat) / (d : Rat) / (U : Rat) * (U : Rat) = (n : Rat) / (d : Rat) := by field_simp
  by_cases hn : n = 0
  · subst hn
    simp only [Nat.cast_zero, zero_div, mul_zero, rndQ_zero, roundMag_zero]
  · have hpos : (0 : Rat) < (n : Rat) / (d : Rat) / (U : Rat) :=
      div_pos (div_pos (by exact_mod_cast Nat.pos_of_ne_zero hn) (by exact_mod_cast hd)) hU
    cases s with
    | false =>
      simp only [Bool.false_eq_true, if_false, one_mul]
      unfold rndQ
      simp only [hq, if_true, hmulU, roundQ_div n d hd]
    | true =>
      simp only [if_true]
      unfold rndQ
      have hneg : ¬ (0 : Rat) ≤ -1 * ((n : Rat) / (d : Rat) / (U : Rat)) := by linarith
      simp only [hneg, if_false]
      have : -(-1 * ((n : Rat) / (d : Rat) / (U : Rat))) * (U : Rat) = (n : Rat) / (d : Rat) := by
        rw [show -(-1 * ((n : Rat) / (d : Rat) / (U : Rat))) = (n : Rat) / (d : Rat) / (U : Rat) by ring]; exact hmulU
      rw [this, roundQ_div n d hd]; ring

/-- the bit model's `rnd` is `rndQ` whenever it does not overflow -/
theorem rnd_valQ (s : Bool) (n d : Nat) (hd : 0 < d) (hf : (rnd s n d).isFinite = true) :
    valQ (rnd s n d) = rndQ ((if s then -1 else 1) * ((n : Rat) / (d : Rat) / (U : Rat))) := by
  rw [rndQ_frac s n d hd]
  unfold rnd at hf ⊢
  simp only at hf ⊢
  by_cases h : roundMag n d < maxMag
  · simp only [h, if_true]; rfl
  · simp only [h, if_false] at hf; cases hf

theorem ratOf_int (s : Bool) (m : Nat) : ratOf s m = (((Val.fin s m).toInt : Int) : Rat) / (U : Rat) := by
  unfold ratOf
  cases s <;> simp [Val.toInt, neg_div]

/-- **`+` of the bit model is `rne ∘ exact`** (whenever the result is finite) -/
theorem add_is_rne (s1 : Bool) (m1 : Nat) (s2 : Bool) (m2 : Nat)
    (hf : (add (.fin s1 m1) (.fin s2 m2)).isFinite = true) :
    valQ (add (.fin s1 m1) (.fin s2 m2)) = rndQ (ratOf s1 m1 + ratOf s2 m2) := by
  have hU := U_posQ
  have hsum : ratOf s1 m1 + ratOf s2 m2 = ((((Val.fin s1 m1).toInt + (Val.fin s2 m2).toInt : Int)) : Rat) / (U : Rat) := by
    rw [ratOf_int, ratOf_int]; push_cast; ring
  rw [hsum]
  change (ofInt ((Val.fin s1 m1).toInt + (Val.fin s2 m2).toInt) (s1 && s2)).isFinite = true at hf
  show valQ (ofInt ((Val.fin s1 m1).toInt + (Val.fin s2 m2).toInt) (s1 && s2)) = _
  generalize (Val.fin s1 m1).toInt + (Val.fin s2 m2).toInt = v at *
  unfold ofInt at hf ⊢
  by_cases hv : v = 0
  · subst hv
    simp [valQ, ratOf, rndQ_zero]
  · have hv' : (v == 0) = false := by simpa using hv
    simp only [hv', Bool.false_eq_true, if_false] at hf ⊢
    rw [rnd_valQ _ _ _ (by decide) hf]
    congr 1
    by_cases hneg : v < 0
    · simp only [hneg, decide_true, if_true]
      have : ((v.natAbs : Nat) : Rat) = -(v : Rat) := by
        have h : (v.natAbs : Int) = -v := by omega
        rw [← Int.cast_natCast, h]; simp
      rw [this]; simp; ring
    · simp only [hneg, decide_false, Bool.false_eq_true, if_false]
      have : ((v.natAbs : Nat) : Rat) = (v : Rat) := by
        have h : (v.natAbs : Int) = v := by omega
        rw [← Int.cast_natCast, h]
      rw [this]; simp

/-- **`*` of the bit model is `rne ∘ exact`** (whenever the result is finite) -/
theorem mul_is_rne (s1 : Bool) (m1 : Nat) (s2 : Bool) (m2 : Nat)
    (hf : (mul (.fin s1 m1) (.fin s2 m2)).isFinite = true) :
    valQ (mul (.fin s1 m1) (.fin s2 m2)) = rndQ (ratOf s1 m1 * ratOf s2 m2) := by
  have hU := U_posQ
  change (rnd (s1 != s2) (m1 * m2) U).isFinite = true at hf
  show valQ (rnd (s1 != s2) (m1 * m2) U) = _
  rw [rnd_valQ _ _ _ U_pos hf]
  congr 1
  unfold ratOf
  cases s1 <;> cases s2 <;> simp <;> field_simp

end B64
