import Srctools.Model.C13
/-! Helper lemmas for C13, part 1: name resolution, read-only mode, read-after-write. -/
namespace C13

/-! ## lists -/

theorem takeWhile_all {α} (p : α → Bool) (l : List α) (h : ∀ a ∈ l, p a = true) : l.takeWhile p = l := by
  have := List.takeWhile_append_of_pos (p := p) (l₁ := l) (l₂ := []) h
  simpa using this

theorem dropWhile_all {α} (p : α → Bool) (l : List α) (h : ∀ a ∈ l, p a = true) : l.dropWhile p = [] := by
  have := List.dropWhile_append_of_pos (p := p) (l₁ := l) (l₂ := []) h
  simpa using this

theorem takeWhile_stop {α} (p : α → Bool) (l r : List α) (x : α) (h : ∀ a ∈ l, p a = true) (hx : p x = false) :
    (l ++ x :: r).takeWhile p = l := by
  rw [List.takeWhile_append_of_pos h, List.takeWhile_cons]; simp [hx]

theorem dropWhile_stop {α} (p : α → Bool) (l r : List α) (x : α) (h : ∀ a ∈ l, p a = true) (hx : p x = false) :
    (l ++ x :: r).dropWhile p = x :: r := by
  rw [List.dropWhile_append_of_pos h, List.dropWhile_cons]; simp [hx]

/-! ## `_get_file_parts` -/

/-- `'.' + ext` when there is an extension -/
def dotExt (e : Str) : Str := if e = [] then [] else DOT :: e

theorem rsplitDot_join (n e : Str) (he : DOT ∉ e) : rsplitDot (n ++ DOT :: e) = (n, e) := by
  unfold rsplitDot
  have hr : (n ++ DOT :: e).reverse = e.reverse ++ DOT :: n.reverse := by simp
  have hall : ∀ a ∈ e.reverse, (fun x => decide (x ≠ DOT)) a = true := by
    intro a ha; simp at ha ⊢; intro h; exact he (h ▸ ha)
  rw [hr, takeWhile_stop _ _ _ _ hall (by simp), dropWhile_stop _ _ _ _ hall (by simp)]
  simp

theorem splitPath_noslash (s : Str) (h : SLASH ∉ s) : splitPath s = ([], s) := by
  unfold splitPath
  have hall : ∀ a ∈ s.reverse, (fun x => decide (x ≠ SLASH)) a = true := by
    intro a ha; simp at ha ⊢; intro e; exact h (e ▸ ha)
  rw [takeWhile_all _ _ hall, dropWhile_all _ _ hall]
  simp

theorem splitPath_join (d f : Str) (hf : SLASH ∉ f) (hd : d ≠ []) (hl : d.getLast? ≠ some SLASH) :
    splitPath (d ++ SLASH :: f) = (d, f) := by
  unfold splitPath
  have hr : (d ++ SLASH :: f).reverse = f.reverse ++ SLASH :: d.reverse := by simp
  have hall : ∀ a ∈ f.reverse, (fun x => decide (x ≠ SLASH)) a = true := by
    intro a ha; simp at ha ⊢; intro e; exact hf (e ▸ ha)
  rw [hr, takeWhile_stop _ _ _ _ hall (by simp), dropWhile_stop _ _ _ _ hall (by simp)]
  -- head = d ++ [SLASH]
  have hne : d.reverse ≠ [] := by simpa using hd
  obtain ⟨x, xs, hx⟩ := List.exists_cons_of_ne_nil hne
  have hxs : x ≠ SLASH := by
    intro e; apply hl
    rw [List.getLast?_eq_head?_reverse, hx, e]; rfl
  have hmem : x ∈ d := by
    have : x ∈ d.reverse := by rw [hx]; simp
    simpa using this
  have hnotall : ((SLASH :: d.reverse).reverse.all (· = SLASH)) = false := by
    rw [Bool.eq_false_iff]; intro hall'
    rw [List.all_eq_true] at hall'
    have := hall' x (by simp [hmem])
    simp at this; exact hxs this
  simp only [List.reverse_reverse]
  have h1 : (SLASH :: d.reverse).reverse ≠ [] := by simp
  simp only [ne_eq, h1, not_false_eq_true, hnotall, Bool.false_eq_true, and_self, if_true]
  unfold rstrip
  simp only [List.reverse_reverse, List.dropWhile_cons, decide_true, if_true]
  rw [hx, List.dropWhile_cons]
  simp [hxs, ← hx]

theorem getFileParts_triple (d n e : Str) (hne : e = [] → DOT ∉ n) :
    getFileParts (.triple d n e) = ⟨cleanPath d, n, e⟩ := by
  unfold getFileParts
  by_cases he : e = []
  · have := hne he
    simp [he, this]
  · simp [he]

theorem getFileParts_pair (d n e : Str) (he : DOT ∉ e) (hne : e = [] → DOT ∉ n) :
    getFileParts (.pair d (n ++ dotExt e)) = ⟨cleanPath d, n, e⟩ := by
  unfold getFileParts dotExt
  by_cases h : e = []
  · have := hne h
    simp [h, this]
  · simp [h, rsplitDot_join n e he]

theorem getFileParts_str_eq (s : Str) :
    getFileParts (.str s) = getFileParts (.pair (splitPath s).1 (splitPath s).2) := by
  unfold getFileParts
  rfl

theorem getFileParts_str (d n e : Str) (hn : SLASH ∉ n) (hes : SLASH ∉ e) (he : DOT ∉ e)
    (hne : e = [] → DOT ∉ n) (hl : d.getLast? ≠ some SLASH) :
    getFileParts (.str (joinFileParts ⟨d, n, e⟩)) = ⟨cleanPath d, n, e⟩ := by
  have hf : SLASH ∉ n ++ dotExt e := by
    unfold dotExt; split
    · simpa using hn
    · simp only [List.mem_append, List.mem_cons, not_or]
      exact ⟨hn, by decide, hes⟩
  have hj : joinFileParts ⟨d, n, e⟩ = d ++ (if d = [] then [] else [SLASH]) ++ (n ++ dotExt e) := by
    unfold joinFileParts dotExt
    by_cases h : e = [] <;> simp [h]
  have hp := getFileParts_pair d n e he hne
  rw [getFileParts_str_eq, hj]
  by_cases hd : d = []
  · subst hd
    simp only [if_true, List.nil_append, splitPath_noslash _ hf]
    exact hp
  · simp only [hd, if_false, List.append_assoc, List.singleton_append, splitPath_join d _ hf hd hl]
    exact hp

/-! ## read-only mode -/

theorem step_readonly (crc : Bytes → Nat) (w : World) (v : Vpk) (hv : w.vpk = some v) (hm : v.mode = .r)
    (op : Op) (hop : ∀ m l, op ≠ .openVpk m l) (hh : ∀ n, op ≠ .has n) (hx : ∀ b, op ≠ .exit b) :
    (step crc w op).1 = w ∧ ∃ e, (step crc w op).2 = .err e := by
  cases op with
  | openVpk m l => exact absurd rfl (hop m l)
  | has n => exact absurd rfl (hh n)
  | exit b => exact absurd rfl (hx b)
  | newFile n => simp [step, hv, hm, Mode.writable]
  | addFile n d i => simp [step, hv, hm, Mode.writable]
  | del n => simp [step, hv, hm, Mode.writable]
  | flush => simp [step, hv, hm, Mode.writable]
  | write n d i =>
    simp only [step, hv, hm, Mode.writable]
    cases v.tree.lookup (getFileParts n) <;> simp

/-- leaving a `with` block of a read-only archive does nothing (and is not an error) -/
theorem step_exit_readonly (crc : Bytes → Nat) (w : World) (v : Vpk) (hv : w.vpk = some v) (hm : v.mode = .r) (b : Bool) :
    step crc w (.exit b) = (w, .ok) := by
  cases b <;> simp [step, hv, hm, Mode.writable]

/-- leaving a `with` block through an exception never saves -/
theorem step_exit_exception (crc : Bytes → Nat) (w : World) (v : Vpk) (hv : w.vpk = some v) :
    step crc w (.exit true) = (w, .ok) := by
  simp [step, hv]

/-- leaving a writable `with` block normally is exactly `write_dirfile()` -/
theorem step_exit_normal (crc : Bytes → Nat) (w : World) (v : Vpk) (hv : w.vpk = some v) (hm : v.mode.writable = true) :
    step crc w (.exit false) = step crc w .flush := by
  simp [step, hv, hm]

/-! ## read after write -/

theorem archGet_archSet_same (a : List (Nat × Bytes)) (j : Nat) (b : Bytes) : archGet (archSet a j b) j = some b := by
  induction a with
  | nil => simp [archSet, archGet]
  | cons x xs ih =>
    obtain ⟨k, c⟩ := x
    by_cases h : k = j <;> simp [archSet, archGet, h, ih]

theorem archGet_archSet_other (a : List (Nat × Bytes)) (j k : Nat) (b : Bytes) (h : k ≠ j) :
    archGet (archSet a j b) k = archGet a k := by
  induction a with
  | nil => simp [archSet, archGet, Ne.symm h]
  | cons x xs ih =>
    obtain ⟨m, c⟩ := x
    by_cases hm : m = j
    · subst hm; simp [archSet, archGet, Ne.symm h]
    · by_cases hk : m = k
      · subst hk; simp [archSet, archGet, hm]
      · simp [archSet, archGet, hm, hk, ih]

theorem slice_append_end (a b : Bytes) : slice (a ++ b) a.length b.length = b := by
  simp [slice]

theorem slice_append_left (a b : Bytes) (off len : Nat) (h : off + len ≤ a.length) :
    slice (a ++ b) off len = slice a off len := by
  unfold slice
  rw [List.drop_append, List.take_append]
  have : len - (List.drop off a).length = 0 := by simp; omega
  rw [this]; simp

theorem take_of_drop_nil {α} (l : List α) (n : Nat) (h : (l.drop n).length = 0) : l.take n = l := by
  have h2 : l.length ≤ n := by simpa [List.length_drop] using (by omega : l.length - n = 0 → l.length ≤ n) (by simpa using h)
  exact List.take_of_length_le h2

theorem readInfo_placeData (crc : Bytes → Nat) (single : Bool) (lim : Option Nat) (archs : List (Nat × Bytes))
    (footer : Bytes) (data : Bytes) (idx : Option Nat) :
    readInfo (placeData crc single lim archs footer data idx).archs (placeData crc single lim archs footer data idx).footer
      (placeData crc single lim archs footer data idx).info = .ok data
    ∧ (placeData crc single lim archs footer data idx).info.crc = crc data := by
  unfold placeData
  simp only
  split
  · rename_i hlen
    split
    · refine ⟨?_, rfl⟩
      simp only [readInfo, hlen, ne_eq, not_false_eq_true, if_true]
      rw [slice_append_end]; simp
    · refine ⟨?_, rfl⟩
      simp only [readInfo, hlen, ne_eq, not_false_eq_true, if_true, archGet_archSet_same]
      rw [slice_append_end]; simp
  · rename_i hlen
    refine ⟨?_, rfl⟩
    have hz : (data.drop (effLimit single lim)).length = 0 := by simpa using hlen
    simp [readInfo, take_of_drop_nil _ _ hz]

theorem sameData_true (crc : Bytes → Nat) (archs : List (Nat × Bytes)) (footer : Bytes) (i : Info) (data : Bytes)
    (h : sameData crc archs footer i data = .ok true) :
    readInfo archs footer i = .ok data ∧ i.crc = crc data := by
  unfold sameData at h
  split at h
  · rename_i hc
    split at h
    · exact absurd h (by simp)
    · rename_i d hd
      injection h with h
      have : data = d := by simpa using h
      subst this
      exact ⟨hd, hc.1.symm⟩
  · exact absurd h (by simp)

/-- `read()` after a successful `write(data, idx)` returns `data`, wherever the data was placed. -/
theorem readInfo_writeInfo (crc : Bytes → Nat) (single : Bool) (lim : Option Nat) (archs : List (Nat × Bytes))
    (footer : Bytes) (i : Info) (data : Bytes) (idx : Option Nat) (wr : Written)
    (h : writeInfo crc single lim archs footer i data idx = .ok wr) :
    readInfo wr.archs wr.footer wr.info = .ok data ∧ (wr.info.crc = crc data) := by
  unfold writeInfo at h
  split at h
  · exact absurd h (by simp)
  · rename_i hs
    injection h with h; subst h
    exact sameData_true crc archs footer i data hs
  · injection h with h; subst h
    exact readInfo_placeData crc single lim archs footer data idx

end C13
