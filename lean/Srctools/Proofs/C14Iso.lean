import Srctools.Model.C14
import Mathlib.Data.List.Nodup
/-! # C14: the numbering traversal (`number` / `indexed`) yields an isomorphic indexed graph. -/
namespace C14

/-! ## generic part: any reference function `refs` over `n` locations -/

/-- `x` is reachable from `l` through references. -/
inductive ReachOn (refs : Nat → List Nat) : Nat → Nat → Prop
  | refl (l : Nat) : ReachOn refs l l
  | step {l k x : Nat} : k ∈ refs l → ReachOn refs k x → ReachOn refs l x

theorem ReachOn.tail {refs : Nat → List Nat} {r l k : Nat} (hr : ReachOn refs r l) (hk : k ∈ refs l) :
    ReachOn refs r k := by
  induction hr with
  | refl l => exact .step hk (.refl k)
  | step h1 _ ih => exact .step h1 (ih hk)

theorem reachOn_lt {refs : Nat → List Nat} {n : Nat} (hc : ∀ l k, k ∈ refs l → k < n) {r l : Nat}
    (hr : r < n) (h1 : ReachOn refs r l) : l < n := by
  induction h1 with
  | refl l => exact hr
  | step hk _ ih => exact ih (hc _ _ hk)

theorem closed_reachOn {refs : Nat → List Nat} {S : Nat → Prop} (hcl : ∀ l, S l → ∀ k ∈ refs l, S k)
    {a l : Nat} (ha : ReachOn refs a l) : S a → S l := by
  induction ha with
  | refl _ => exact id
  | step hk _ ih => exact fun hs => ih (hcl _ hs _ hk)

/-! ## the inner loop -/

theorem visitAll_prefix (ord ks : List Nat) : ord <+: visitAll ord ks := by
  induction ks generalizing ord with
  | nil => exact List.prefix_refl _
  | cons k ks ih =>
    simp only [visitAll]
    split
    · exact ih ord
    · exact List.IsPrefix.trans (List.prefix_append ord [k]) (ih _)

theorem mem_visitAll (ord ks : List Nat) (x : Nat) : x ∈ visitAll ord ks ↔ x ∈ ord ∨ x ∈ ks := by
  induction ks generalizing ord with
  | nil => simp [visitAll]
  | cons k ks ih =>
    simp only [visitAll]
    split
    · rename_i hk
      rw [ih]
      simp only [List.contains_eq_mem, decide_eq_true_eq] at hk
      constructor
      · rintro (h | h)
        · exact .inl h
        · exact .inr (List.mem_cons_of_mem _ h)
      · rintro (h | h)
        · exact .inl h
        · rcases List.mem_cons.mp h with rfl | h
          · exact .inl hk
          · exact .inr h
    · rw [ih]
      simp only [List.mem_append, List.mem_cons, List.not_mem_nil, or_false]
      constructor
      · rintro ((h | h) | h)
        · exact .inl h
        · exact .inr (.inl h)
        · exact .inr (.inr h)
      · rintro (h | h | h)
        · exact .inl (.inl h)
        · exact .inl (.inr h)
        · exact .inr h

theorem nodup_visitAll (ord ks : List Nat) (hn : ord.Nodup) : (visitAll ord ks).Nodup := by
  induction ks generalizing ord with
  | nil => exact hn
  | cons k ks ih =>
    simp only [visitAll]
    split
    · exact ih ord hn
    · rename_i hk
      simp only [List.contains_eq_mem, decide_eq_true_eq] at hk
      apply ih
      rw [List.nodup_append]
      refine ⟨hn, List.nodup_singleton k, ?_⟩
      intro a ha b hb
      simp only [List.mem_singleton] at hb
      subst hb
      intro e; subst e; exact hk ha

/-- an element at a position beyond the old list was appended by this pass. -/
theorem visitAll_new (ord ks : List Nat) {p x : Nat} (hp : ord.length ≤ p)
    (hx : (visitAll ord ks)[p]? = some x) : x ∈ ks := by
  induction ks generalizing ord with
  | nil =>
    simp only [visitAll] at hx
    rw [List.getElem?_eq_none hp] at hx; cases hx
  | cons k ks ih =>
    simp only [visitAll] at hx
    split at hx
    · exact List.mem_cons_of_mem _ (ih ord hp hx)
    · rcases Nat.lt_or_ge p (ord ++ [k]).length with h | h
      · -- p is the position of k
        have hpe : p = ord.length := by simp at h; omega
        have hpre := visitAll_prefix (ord ++ [k]) ks
        obtain ⟨t, ht⟩ := hpre
        rw [← ht, List.getElem?_append_left h, hpe] at hx
        simp at hx
        subst hx; exact List.mem_cons_self ..
      · exact List.mem_cons_of_mem _ (ih _ h hx)

/-! ## the outer loop -/

structure InvOn (refs : Nat → List Nat) (root i : Nat) (ord : List Nat) : Prop where
  nodup : ord.Nodup
  reach : ∀ l ∈ ord, ReachOn refs root l
  head : ord.head? = some root
  closedPre : ∀ j, j < i → ∀ l, ord[j]? = some l → ∀ k ∈ refs l, k ∈ ord
  le : i ≤ ord.length
  /-- every element but the first was appended while an earlier one was processed -/
  parent : ∀ p x, 0 < p → ord[p]? = some x → ∃ q y, q < p ∧ ord[q]? = some y ∧ x ∈ refs y

/-- What the traversal guarantees about `elements`. -/
structure NumberingOn (refs : Nat → List Nat) (root : Nat) (ord : List Nat) : Prop where
  /-- every element gets at most one index -/
  nodup : ord.Nodup
  /-- the root is element 0 -/
  head : ord.head? = some root
  /-- exactly the reachable elements are exported -/
  mem_iff : ∀ l, l ∈ ord ↔ ReachOn refs root l
  /-- every element but the first is referenced by an element with a smaller index -/
  parent : ∀ p x, 0 < p → ord[p]? = some x → ∃ q y, q < p ∧ ord[q]? = some y ∧ x ∈ refs y

theorem prefix_getElem? {a b : List Nat} (hp : a <+: b) {j l : Nat} (hj : a[j]? = some l) :
    b[j]? = some l := by
  obtain ⟨t, rfl⟩ := hp
  have hlt : j < a.length := by
    rcases Nat.lt_or_ge j a.length with h | h
    · exact h
    · rw [List.getElem?_eq_none h] at hj; cases hj
  rw [List.getElem?_append_left hlt]; exact hj

theorem bfsOn_numbering (refs : Nat → List Nat) (n : Nat) (hc : ∀ l k, k ∈ refs l → k < n) (root : Nat)
    (hr : root < n) :
    ∀ (f i : Nat) (ord : List Nat), InvOn refs root i ord → n + 1 ≤ f + i →
      NumberingOn refs root (bfsOn refs f i ord) := by
  intro f
  induction f with
  | zero =>
    intro i ord inv hf
    have hsub : ord ⊆ List.range n := by
      intro l hl
      exact List.mem_range.mpr (reachOn_lt hc hr (inv.reach l hl))
    have := List.Nodup.length_le_of_subset inv.nodup hsub
    rw [List.length_range] at this
    have := inv.le
    omega
  | succ f ih =>
    intro i ord inv hf
    simp only [bfsOn]
    cases hget : ord[i]? with
    | none =>
      simp only
      have hi : i = ord.length := by
        have := List.getElem?_eq_none_iff.mp hget
        have := inv.le
        omega
      refine ⟨inv.nodup, inv.head, fun l => ⟨inv.reach l, ?_⟩, inv.parent⟩
      intro hrl
      have hroot : root ∈ ord := by
        cases ord with
        | nil => exact absurd inv.head (by simp)
        | cons a t =>
          have := inv.head
          simp only [List.head?_cons, Option.some.injEq] at this
          subst this; exact List.mem_cons_self ..
      have hclosed : ∀ l ∈ ord, ∀ k ∈ refs l, k ∈ ord := by
        intro l hl k hk
        obtain ⟨j, hj, hjl⟩ := List.mem_iff_getElem.mp hl
        exact inv.closedPre j (by omega) l (by rw [List.getElem?_eq_getElem hj, hjl]) k hk
      exact closed_reachOn (S := fun x => x ∈ ord) hclosed hrl hroot
    | some loc =>
      simp only
      apply ih (i + 1) _ _ (by omega)
      have hpre := visitAll_prefix ord (refs loc)
      have hloc : loc ∈ ord := List.mem_of_getElem? hget
      have h1 : i < ord.length := by
        rcases Nat.lt_or_ge i ord.length with h | h
        · exact h
        · rw [List.getElem?_eq_none h] at hget; cases hget
      refine ⟨nodup_visitAll _ _ inv.nodup, ?_, ?_, ?_, ?_, ?_⟩
      · intro l hl
        rcases (mem_visitAll _ _ _).mp hl with h2 | h2
        · exact inv.reach l h2
        · exact (inv.reach loc hloc).tail h2
      · obtain ⟨t, ht⟩ := hpre
        rw [← ht]
        cases ord with
        | nil => exact absurd inv.head (by simp)
        | cons a t' => simpa using inv.head
      · intro j hj l hjl k hk
        rcases Nat.lt_or_ge j i with hlt | hge
        · have hj' : j < ord.length := by omega
          have : ord[j]? = some l := by
            obtain ⟨t, ht⟩ := hpre
            rw [← ht, List.getElem?_append_left hj'] at hjl; exact hjl
          exact (mem_visitAll _ _ _).mpr (.inl (inv.closedPre j hlt l this k hk))
        · have hji : j = i := by omega
          subst hji
          have : l = loc := by
            have := prefix_getElem? hpre hget
            rw [this] at hjl; exact (Option.some.inj hjl).symm
          subst this
          exact (mem_visitAll _ _ _).mpr (.inr hk)
      · have := hpre.length_le
        omega
      · intro p x hp hpx
        rcases Nat.lt_or_ge p ord.length with hlt | hge
        · -- an old position
          have hold : ord[p]? = some x := by
            obtain ⟨t, ht⟩ := hpre
            rw [← ht, List.getElem?_append_left hlt] at hpx; exact hpx
          obtain ⟨q, y, hq, hqy, hxy⟩ := inv.parent p x hp hold
          exact ⟨q, y, hq, prefix_getElem? hpre hqy, hxy⟩
        · -- appended while `loc` (position i < p) was processed
          exact ⟨i, loc, by omega, prefix_getElem? hpre hget, visitAll_new ord (refs loc) hge hpx⟩

theorem numberOn_numbering (refs : Nat → List Nat) (n : Nat) (hc : ∀ l k, k ∈ refs l → k < n) (root : Nat)
    (hr : root < n) : NumberingOn refs root (numberOn refs n root) := by
  unfold numberOn
  apply bfsOn_numbering refs n hc root hr _ 0 [root] _ (by omega)
  refine ⟨List.nodup_singleton _, fun l hl => by simp at hl; subst hl; exact .refl _, rfl,
    fun j hj => by omega, by simp, ?_⟩
  intro p x hp hpx
  cases p with
  | zero => omega
  | succ p => simp at hpx

/-! ## instance: the binary-value graph -/

/-- `x` is reachable from `l` through element references (NULL and stubs are not followed). -/
abbrev Reach (h : Graph) : Nat → Nat → Prop := ReachOn h.refsAt

abbrev Numbering (h : Graph) (root : Nat) (ord : List Nat) : Prop := NumberingOn h.refsAt root ord

theorem refsAt_lt {h : Graph} (hc : heapClosed h = true) {l k : Nat} (hk : k ∈ h.refsAt l) :
    k < h.elems.length := by
  unfold Graph.refsAt at hk
  cases he : h.elems[l]? with
  | none => simp [he] at hk
  | some e =>
    simp only [he] at hk
    simp only [heapClosed, List.all_eq_true, decide_eq_true_eq] at hc
    exact hc e (List.mem_of_getElem? he) k hk

theorem reach_lt {h : Graph} (hc : heapClosed h = true) {r l : Nat} (hr : r < h.elems.length)
    (h1 : Reach h r l) : l < h.elems.length :=
  reachOn_lt (fun _ _ hk => refsAt_lt hc hk) hr h1

theorem number_numbering (h : Graph) (hc : heapClosed h = true) (root : Nat)
    (hr : root < h.elems.length) : Numbering h root (number h root) :=
  numberOn_numbering h.refsAt h.elems.length (fun _ _ hk => refsAt_lt hc hk) root hr

/-! ## the indexed graph -/

theorem filterMap_getElem? {α β : Type} (F : α → Option β) (l : List α)
    (hs : ∀ x ∈ l, (F x).isSome = true) (i : Nat) : (l.filterMap F)[i]? = l[i]?.bind F := by
  induction l generalizing i with
  | nil => simp
  | cons x xs ih =>
    have hx := hs x (List.mem_cons_self ..)
    obtain ⟨y, hy⟩ := Option.isSome_iff_exists.mp hx
    rw [List.filterMap_cons_some hy]
    cases i with
    | zero => simp [hy]
    | succ i => simpa using ih (fun z hz => hs z (List.mem_cons_of_mem _ hz)) i

theorem filterMap_length {α β : Type} (F : α → Option β) (l : List α)
    (hs : ∀ x ∈ l, (F x).isSome = true) : (l.filterMap F).length = l.length := by
  induction l with
  | nil => rfl
  | cons x xs ih =>
    obtain ⟨y, hy⟩ := Option.isSome_iff_exists.mp (hs x (List.mem_cons_self ..))
    rw [List.filterMap_cons_some hy]
    simp [ih (fun z hz => hs z (List.mem_cons_of_mem _ hz))]

/-- `g` is the heap graph `h` seen from `root`, renumbered: a list `ord` of locations (position =
index) that enumerates exactly the reachable locations once, starts with the root, and such that
element `i` of `g` is the element at location `ord[i]` with every element reference replaced by
the index of its target — and that index leads back to the target location. NULL and stub
references, names, types, UUIDs, attribute order and all other values are unchanged. -/
def Iso (h : Graph) (root : Nat) (g : Graph) : Prop :=
  ∃ ord : List Nat, Numbering h root ord ∧ g.elems.length = ord.length ∧
    ∀ (i loc : Nat), ord[i]? = some loc → ∃ e, h.elems[loc]? = some e ∧
      g.elems[i]? = some (relabelElem ord e) ∧
      ∀ k ∈ e.refs, posOf ord k < ord.length ∧ ord[posOf ord k]? = some k

theorem posOf_spec {ord : List Nat} {k : Nat} (hk : k ∈ ord) :
    posOf ord k < ord.length ∧ ord[posOf ord k]? = some k := by
  have hlt : ord.idxOf k < ord.length := List.idxOf_lt_length_iff.mpr hk
  refine ⟨hlt, ?_⟩
  show ord[ord.idxOf k]? = some k
  rw [List.getElem?_eq_getElem hlt, List.getElem_idxOf hlt]

theorem indexed_iso (h : Graph) (hc : heapClosed h = true) (root : Nat) (hr : root < h.elems.length) :
    Iso h root (indexed h root) := by
  have hN := number_numbering h hc root hr
  refine ⟨number h root, hN, ?_, ?_⟩
  · unfold indexed
    simp only
    apply filterMap_length
    intro loc hl
    have := reach_lt hc hr ((hN.mem_iff loc).mp hl)
    simp [List.getElem?_eq_getElem this]
  · intro i loc hi
    have hl : loc ∈ number h root := List.mem_of_getElem? hi
    have hlt := reach_lt hc hr ((hN.mem_iff loc).mp hl)
    refine ⟨h.elems[loc], List.getElem?_eq_getElem hlt, ?_, ?_⟩
    · unfold indexed
      simp only
      rw [filterMap_getElem?]
      · simp [hi, List.getElem?_eq_getElem hlt]
      · intro x hx
        have := reach_lt hc hr ((hN.mem_iff x).mp hx)
        simp [List.getElem?_eq_getElem this]
    · intro k hk
      apply posOf_spec
      apply (hN.mem_iff k).mpr
      apply ((hN.mem_iff loc).mp hl).tail
      simp [Graph.refsAt, List.getElem?_eq_getElem hlt, hk]

/-- every element reference of the indexed graph is in range. -/
theorem indexed_refs_lt (h : Graph) (hc : heapClosed h = true) (root : Nat) (hr : root < h.elems.length)
    (e : Elem) (he : e ∈ (indexed h root).elems) (k : Nat) (hk : k ∈ e.refs) :
    k < (indexed h root).elems.length := by
  obtain ⟨ord, hN, hlen, hel⟩ := indexed_iso h hc root hr
  obtain ⟨i, hi, hie⟩ := List.mem_iff_getElem.mp he
  rw [hlen] at hi
  obtain ⟨e0, _, hg, hrefs⟩ := hel i ord[i] (List.getElem?_eq_getElem hi)
  have : e = relabelElem ord e0 := by
    have h2 : (indexed h root).elems[i]? = some e := by
      rw [List.getElem?_eq_getElem (by omega), hie]
    rw [hg] at h2; exact (Option.some.inj h2).symm
  subst this
  -- a reference of the relabelled element is the position of a reference of the original
  simp only [Elem.refs, relabelElem, List.mem_flatMap, List.mem_map] at hk
  obtain ⟨a', ⟨a, ha, rfl⟩, hk⟩ := hk
  simp only [Attr.refs] at hk
  split at hk
  · rename_i hty
    simp only [List.mem_filterMap, List.mem_map] at hk
    obtain ⟨v', ⟨v, hv, rfl⟩, hk⟩ := hk
    cases v with
    | ref r =>
      cases r with
      | idx j =>
        simp only [relabelVal, Option.some.injEq] at hk
        subst hk
        have hj : j ∈ e0.refs := by
          simp only [Elem.refs, List.mem_flatMap]
          refine ⟨a, ha, ?_⟩
          simp only [Attr.refs]
          rw [if_pos hty, List.mem_filterMap]
          exact ⟨_, hv, rfl⟩
        rw [hlen]; exact (hrefs j hj).1
      | null => simp [relabelVal] at hk
      | stub u => simp [relabelVal] at hk
    | fixed xs => simp [relabelVal] at hk
    | str s => simp [relabelVal] at hk
    | bin b => simp [relabelVal] at hk
  · simp at hk

end C14
