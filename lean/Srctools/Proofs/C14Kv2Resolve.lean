import Srctools.Proofs.C14Kv2File
import Mathlib.Data.List.Forall2
import Mathlib.Data.List.Nodup
/-! # C14 / KeyValues2: numbering of the parsed forest and the UUID fix-ups.

`order g flat` lists, for every node of the parsed forest in preorder, the element of `g` it is a
copy of.  `resolve (forest …)` relates node `k` to element `order[k]`: same type, name, UUID (when
written), attributes, values; every element reference is a node that is a copy of its target. -/
namespace C14.Kv2
open C14 List

theorem inlineKids_eq (g : TGraph) (flat : Bool) (e : TElem) :
    inlineKids g flat e = kidsOfAttrs g flat e.attrs := rfl

/-- `seg` occupies the positions `base, base+1, …` of `ord`. -/
def Seg (ord : List Nat) (base : Nat) (seg : List Nat) : Prop :=
  ∀ k x, seg[k]? = some x → ord[base + k]? = some x

theorem Seg.append {ord : List Nat} {base : Nat} {a b : List Nat} (h : Seg ord base (a ++ b)) :
    Seg ord base a ∧ Seg ord (base + a.length) b := by
  constructor
  · intro k x hk
    apply h k x
    have hlt : k < a.length := by
      rcases Nat.lt_or_ge k a.length with h1 | h1
      · exact h1
      · rw [List.getElem?_eq_none h1] at hk; cases hk
    rw [List.getElem?_append_left hlt]; exact hk
  · intro k x hk
    have := h (a.length + k) x (by rw [List.getElem?_append_right (by omega)]; simpa using hk)
    rw [← this]; congr 1; omega

theorem Seg.head {ord : List Nat} {base x : Nat} {t : List Nat} (h : Seg ord base (x :: t)) :
    ord[base]? = some x := by simpa using h 0 x rfl

theorem Seg.tail {ord : List Nat} {base x : Nat} {t : List Nat} (h : Seg ord base (x :: t)) :
    Seg ord (base + 1) t := by
  intro k y hk
  have := h (k + 1) y (by simpa using hk)
  rw [← this]; congr 1; omega

/-! ## relations between the graph and the flattened nodes -/

/-- before the fix-ups: references to top-level elements are still UUIDs. -/
def ValRelPre (g : TGraph) (flat : Bool) (ord : List Nat) : TVal → FVal → Prop
  | .text s, .text s' => s = s'
  | .ref .null, .null => True
  | .ref (.stub u), .uuid u' => u = u'
  | .ref (.idx j), .uuid u' => isRoot g flat j = true ∧ u' = uuidAt g j
  | .ref (.idx j), .node k => isRoot g flat j = false ∧ ord[k]? = some j
  | _, _ => False

def AttrRel (V : TVal → FVal → Prop) (a : TAttr) (fa : FAttr) : Prop :=
  fa.name = a.name ∧ fa.type = a.type ∧ fa.isArray = a.isArray ∧ Forall₂ V a.vals fa.vals

def NodeRel (g : TGraph) (flat cull : Bool) (V : TVal → FVal → Prop) (x : Nat) (n : FNode) : Prop :=
  ∃ e, g.elems[x]? = some e ∧ n.type = e.type ∧ n.name = e.name ∧
    n.uuid = (if !cull || isRoot g flat x then some e.uuid else none) ∧
    Forall₂ (AttrRel V) e.attrs n.attrs

theorem orderOf_cons (g : TGraph) (flat : Bool) (fuel j : Nat) (h : nestOK g flat fuel j = true) :
    ∃ t, orderOf g flat fuel j = j :: t := by
  cases fuel with
  | zero => simp [nestOK] at h
  | succ f =>
    cases he : g.elems[j]? with
    | none => simp [nestOK, he] at h
    | some e => exact ⟨(inlineKids g flat e).flatMap (orderOf g flat f), by simp [orderOf, he]⟩

section flatten
variable (g : TGraph) (flat cull : Bool) (ord : List Nat)

/-- values: the flattened values are related to the graph's values, and the nodes produced for the
inline children are copies of the elements in their emission order. -/
theorem flatVals_rel (fuel : Nat)
    (ih : ∀ j base, nestOK g flat fuel j = true → Seg ord base (orderOf g flat fuel j) →
      Forall₂ (NodeRel g flat cull (ValRelPre g flat ord)) (orderOf g flat fuel j)
        (flatElem (ptree g flat cull fuel j) base)) :
    ∀ (vals : List TVal) (next : Nat), (∀ j ∈ kidsOfVals g flat vals, nestOK g flat fuel j = true) →
      Seg ord next ((kidsOfVals g flat vals).flatMap (orderOf g flat fuel)) →
      Forall₂ (ValRelPre g flat ord) vals (flatVals (vals.map (pval g flat (ptree g flat cull fuel))) next).1 ∧
      Forall₂ (NodeRel g flat cull (ValRelPre g flat ord))
        ((kidsOfVals g flat vals).flatMap (orderOf g flat fuel))
        (flatVals (vals.map (pval g flat (ptree g flat cull fuel))) next).2 := by
  intro vals
  induction vals with
  | nil => intro next _ _; simp [kidsOfVals, flatVals]
  | cons v vs ihv =>
    intro next hk hseg
    cases v with
    | text s =>
      have := ihv next (by simpa [kidsOfVals] using hk) (by simpa [kidsOfVals] using hseg)
      simp only [List.map_cons, pval, flatVals, kidsOfVals, List.filterMap_cons] at this ⊢
      exact ⟨Forall₂.cons rfl this.1, this.2⟩
    | ref r =>
      cases r with
      | null =>
        have := ihv next (by simpa [kidsOfVals] using hk) (by simpa [kidsOfVals] using hseg)
        simp only [List.map_cons, pval, flatVals, kidsOfVals, List.filterMap_cons] at this ⊢
        exact ⟨Forall₂.cons trivial this.1, this.2⟩
      | stub u =>
        have := ihv next (by simpa [kidsOfVals] using hk) (by simpa [kidsOfVals] using hseg)
        simp only [List.map_cons, pval, flatVals, kidsOfVals, List.filterMap_cons] at this ⊢
        exact ⟨Forall₂.cons rfl this.1, this.2⟩
      | idx j =>
        by_cases hroot : isRoot g flat j = true
        · have := ihv next (by simpa [kidsOfVals, hroot] using hk) (by simpa [kidsOfVals, hroot] using hseg)
          simp only [List.map_cons, pval, hroot, if_true, flatVals, kidsOfVals, List.filterMap_cons] at this ⊢
          exact ⟨Forall₂.cons ⟨hroot, rfl⟩ this.1, this.2⟩
        · have hroot' : isRoot g flat j = false := by simpa using hroot
          have hkids : kidsOfVals g flat (.ref (.idx j) :: vs) = j :: kidsOfVals g flat vs := by
            simp [kidsOfVals, hroot']
          rw [hkids] at hk hseg ⊢
          simp only [List.flatMap_cons] at hseg ⊢
          obtain ⟨hs1, hs2⟩ := hseg.append
          have hj : nestOK g flat fuel j = true := hk j (List.mem_cons_self ..)
          have h1 := ih j next hj hs1
          have hlen := h1.length_eq
          have h2 := ihv (next + (flatElem (ptree g flat cull fuel j) next).length)
            (fun i hi => hk i (List.mem_cons_of_mem _ hi)) (by rw [← hlen]; exact hs2)
          obtain ⟨t, ht⟩ := orderOf_cons g flat fuel j hj
          simp only [List.map_cons, pval, hroot', Bool.false_eq_true, if_false, flatVals]
          refine ⟨Forall₂.cons ⟨hroot', ?_⟩ h2.1, rel_append h1 h2.2⟩
          rw [ht] at hs1
          exact hs1.head

/-- attributes. -/
theorem flatAttrs_rel (fuel : Nat)
    (ih : ∀ j base, nestOK g flat fuel j = true → Seg ord base (orderOf g flat fuel j) →
      Forall₂ (NodeRel g flat cull (ValRelPre g flat ord)) (orderOf g flat fuel j)
        (flatElem (ptree g flat cull fuel j) base)) :
    ∀ (as : List TAttr) (next : Nat), (∀ j ∈ kidsOfAttrs g flat as, nestOK g flat fuel j = true) →
      Seg ord next ((kidsOfAttrs g flat as).flatMap (orderOf g flat fuel)) →
      Forall₂ (AttrRel (ValRelPre g flat ord)) as
        (flatAttrs (as.map (pattr g flat (ptree g flat cull fuel))) next).1 ∧
      Forall₂ (NodeRel g flat cull (ValRelPre g flat ord))
        ((kidsOfAttrs g flat as).flatMap (orderOf g flat fuel))
        (flatAttrs (as.map (pattr g flat (ptree g flat cull fuel))) next).2 := by
  intro as
  induction as with
  | nil => intro next _ _; simp [kidsOfAttrs, flatAttrs]
  | cons a as iha =>
    intro next hk hseg
    have hkids : kidsOfAttrs g flat (a :: as) = kidsOfVals g flat a.vals ++ kidsOfAttrs g flat as := by
      simp [kidsOfAttrs]
    rw [hkids] at hk hseg ⊢
    simp only [List.flatMap_append] at hseg ⊢
    obtain ⟨hs1, hs2⟩ := hseg.append
    have h1 := flatVals_rel g flat cull ord fuel ih a.vals next
      (fun j hj => hk j (List.mem_append_left _ hj)) hs1
    have hlen := h1.2.length_eq
    have h2 := iha (next + (flatVals (a.vals.map (pval g flat (ptree g flat cull fuel))) next).2.length)
      (fun j hj => hk j (List.mem_append_right _ hj)) (by rw [← hlen]; exact hs2)
    simp only [List.map_cons, pattr, flatAttrs]
    exact ⟨Forall₂.cons ⟨rfl, rfl, rfl, h1.1⟩ h2.1, rel_append h1.2 h2.2⟩

/-- **one emitted element with everything nested in it**: its nodes, in preorder, are copies of
the elements of its emission order. -/
theorem flatElem_rel : ∀ (fuel j base : Nat), nestOK g flat fuel j = true →
    Seg ord base (orderOf g flat fuel j) →
    Forall₂ (NodeRel g flat cull (ValRelPre g flat ord)) (orderOf g flat fuel j)
      (flatElem (ptree g flat cull fuel j) base) := by
  intro fuel
  induction fuel with
  | zero => intro j base h; simp [nestOK] at h
  | succ fuel ih =>
    intro j base hn hseg
    cases he : g.elems[j]? with
    | none => simp [nestOK, he] at hn
    | some e =>
      simp only [nestOK, he, List.all_eq_true] at hn
      have hord : orderOf g flat (fuel + 1) j = j :: (kidsOfAttrs g flat e.attrs).flatMap (orderOf g flat fuel) := by
        simp [orderOf, he, inlineKids_eq]
      rw [hord] at hseg ⊢
      rw [ptree_succ g flat cull fuel j e he]
      simp only [flatElem]
      have h := flatAttrs_rel g flat cull ord fuel ih e.attrs (base + 1)
        (by rw [← inlineKids_eq]; exact hn) hseg.tail
      exact Forall₂.cons ⟨e, he, rfl, rfl, rfl, h.1⟩ h.2

end flatten

/-! ## the forest and the fix-ups -/

theorem flatTop_rel (g : TGraph) (flat cull : Bool) (ord : List Nat) (fuel : Nat) :
    ∀ (rs : List Nat) (base : Nat), (∀ i ∈ rs, nestOK g flat fuel i = true) →
      Seg ord base (rs.flatMap (orderOf g flat fuel)) →
      Forall₂ (NodeRel g flat cull (ValRelPre g flat ord)) (rs.flatMap (orderOf g flat fuel))
        (flatTop (rs.map (ptree g flat cull fuel)) base) := by
  intro rs
  induction rs with
  | nil => intro base _ _; simp [flatTop]
  | cons r rs ih =>
    intro base hn hseg
    simp only [List.flatMap_cons] at hseg ⊢
    obtain ⟨hs1, hs2⟩ := hseg.append
    have h1 := flatElem_rel g flat cull ord fuel r base (hn r (List.mem_cons_self ..)) hs1
    have hlen := h1.length_eq
    have h2 := ih (base + (flatElem (ptree g flat cull fuel r) base).length)
      (fun i hi => hn i (List.mem_cons_of_mem _ hi)) (by rw [← hlen]; exact hs2)
    simp only [List.map_cons, flatTop]
    exact rel_append h1 h2

theorem seg_self (ord : List Nat) : Seg ord 0 ord := by
  intro k x hk; simpa using hk

/-- after the fix-ups every element reference is a node. -/
def ValRel (ord : List Nat) : TVal → FVal → Prop
  | .text s, .text s' => s = s'
  | .ref .null, .null => True
  | .ref (.stub u), .uuid u' => u = u'
  | .ref (.idx j), .node k => ord[k]? = some j
  | _, _ => False

theorem forall₂_getElem?_right {α β : Type} {R : α → β → Prop} {l1 : List α} {l2 : List β}
    (h : Forall₂ R l1 l2) {k : Nat} {b : β} (hb : l2[k]? = some b) : ∃ a, l1[k]? = some a ∧ R a b := by
  induction h generalizing k with
  | nil => simp at hb
  | cons hab _ ih =>
    cases k with
    | zero => simp only [List.getElem?_cons_zero, Option.some.injEq] at hb; subst hb; exact ⟨_, rfl, hab⟩
    | succ k => simpa using ih (by simpa using hb)

theorem forall₂_getElem?_left {α β : Type} {R : α → β → Prop} {l1 : List α} {l2 : List β}
    (h : Forall₂ R l1 l2) {k : Nat} {a : α} (ha : l1[k]? = some a) : ∃ b, l2[k]? = some b ∧ R a b := by
  induction h generalizing k with
  | nil => simp at ha
  | cons hab _ ih =>
    cases k with
    | zero => simp only [List.getElem?_cons_zero, Option.some.injEq] at ha; subst ha; exact ⟨_, rfl, hab⟩
    | succ k => simpa using ih (by simpa using ha)

theorem idOf_some {nodes : List FNode} {u : Str} {k : Nat} (h : idOf nodes u = some k) :
    ∃ n, nodes[k]? = some n ∧ n.uuid = some u := by
  unfold idOf at h
  have := List.find?_some h
  cases hn : nodes[k]? with
  | none => simp [hn] at this
  | some n => exact ⟨n, rfl, by simpa [hn] using this⟩

theorem idOf_none {nodes : List FNode} {u : Str} (h : idOf nodes u = none) :
    ∀ (k : Nat) (n : FNode), nodes[k]? = some n → n.uuid ≠ some u := by
  intro k n hk hu
  unfold idOf at h
  have := List.find?_eq_none.mp h k (by
    simp only [List.mem_reverse, List.mem_range]
    rcases Nat.lt_or_ge k nodes.length with h1 | h1
    · exact h1
    · rw [List.getElem?_eq_none h1] at hk; cases hk)
  simp [hk, hu] at this

section resolve
variable (g : TGraph) (flat cull : Bool)

theorem uuid_inj (hu : uuidsOK g = true) {i j : Nat} {ei ej : TElem} (hi : g.elems[i]? = some ei)
    (hj : g.elems[j]? = some ej) (h : ei.uuid = ej.uuid) : i = j := by
  simp only [uuidsOK, Bool.and_eq_true, decide_eq_true_eq] at hu
  have hnd := hu.1
  have hil : i < g.elems.length := by
    rcases Nat.lt_or_ge i g.elems.length with h1 | h1
    · exact h1
    · rw [List.getElem?_eq_none h1] at hi; cases hi
  have hjl : j < g.elems.length := by
    rcases Nat.lt_or_ge j g.elems.length with h1 | h1
    · exact h1
    · rw [List.getElem?_eq_none h1] at hj; cases hj
  have h1 : (g.elems.map (·.uuid))[i]'(by simpa using hil) = ei.uuid := by
    simp [List.getElem_map, (List.getElem?_eq_some_iff.mp hi).2]
  have h2 : (g.elems.map (·.uuid))[j]'(by simpa using hjl) = ej.uuid := by
    simp [List.getElem_map, (List.getElem?_eq_some_iff.mp hj).2]
  exact (List.Nodup.getElem_inj_iff hnd).mp (by rw [h1, h2, h])

end resolve

theorem forall₂_imp_mem {α β : Type} {R S : α → β → Prop} {l1 : List α} {l2 : List β}
    (h : Forall₂ R l1 l2) (hi : ∀ a b, a ∈ l1 → R a b → S a b) : Forall₂ S l1 l2 := by
  induction h with
  | nil => exact .nil
  | cons hab _ ih =>
    exact .cons (hi _ _ (List.mem_cons_self ..) hab)
      (ih (fun a b ha => hi a b (List.mem_cons_of_mem _ ha)))

section main
variable (T : Tables) (fold : Str → Str) (g : TGraph) (flat cull : Bool)
  (hwf : graphWf T fold g flat = true) (hu : uuidsOK g = true)
  (hn : ∀ i ∈ roots g flat, nestOK g flat (g.elems.length + 1) i = true)

include hn in
theorem forest_rel :
    Forall₂ (NodeRel g flat cull (ValRelPre g flat (order g flat))) (order g flat)
      (flatTop (forest g flat cull) 0) :=
  flatTop_rel g flat cull (order g flat) (g.elems.length + 1) (roots g flat) 0 hn (seg_self _)

include hn in
/-- a top-level element occurs in `order`. -/
theorem root_in_order {j : Nat} (hj : j ∈ roots g flat) : j ∈ order g flat := by
  obtain ⟨t, ht⟩ := orderOf_cons g flat _ j (hn j hj)
  simp only [order, List.mem_flatMap]
  exact ⟨j, hj, by rw [ht]; exact List.mem_cons_self ..⟩

include hwf hu hn in
/-- **fix-ups**: after `resolve`, node `k` is a copy of element `order[k]` and every element
reference is a node that is a copy of the referenced element. -/
theorem resolve_rel :
    Forall₂ (NodeRel g flat cull (ValRel (order g flat))) (order g flat) (resolve (forest g flat cull)) := by
  have H := forest_rel g flat cull hn
  unfold resolve
  simp only
  rw [forall₂_map_right_iff]
  refine H.imp ?_
  rintro x n ⟨e, he, hty, hnm, huu, hattrs⟩
  refine ⟨e, he, hty, hnm, huu, ?_⟩
  simp only
  rw [forall₂_map_right_iff]
  have hemem : e ∈ g.elems := List.mem_of_getElem? he
  refine forall₂_imp_mem hattrs ?_
  rintro a fa ha ⟨h1, h2, h3, hvals⟩
  refine ⟨h1, h2, h3, ?_⟩
  simp only
  rw [forall₂_map_right_iff]
  refine forall₂_imp_mem hvals ?_
  intro v fv hv hrel
  -- facts about this value from the well-formedness predicates
  have hgw := hwf
  simp only [graphWf, List.all_eq_true, Bool.and_eq_true] at hgw
  have hvw := ((hgw e hemem).2 a ha).2 v hv
  have huo := hu
  simp only [uuidsOK, Bool.and_eq_true, List.all_eq_true] at huo
  have hst := huo.2 e hemem a ha v hv
  -- a node's UUID is the UUID of the element it copies
  have node_uuid : ∀ (k : Nat) (n' : FNode) (u : Str), (flatTop (forest g flat cull) 0)[k]? = some n' →
      n'.uuid = some u → ∃ x' e', (order g flat)[k]? = some x' ∧ g.elems[x']? = some e' ∧ e'.uuid = u := by
    intro k n' u hk hnu
    obtain ⟨x', hx', e', he', _, _, huu', _⟩ := forall₂_getElem?_right H hk
    refine ⟨x', e', hx', he', ?_⟩
    rw [huu'] at hnu
    split at hnu
    · exact Option.some.inj hnu
    · cases hnu
  cases v with
  | text s => cases fv <;> simp_all [ValRelPre, ValRel, fixVal]
  | ref r =>
    cases r with
    | null => cases fv <;> simp_all [ValRelPre, ValRel, fixVal]
    | stub u =>
      cases fv with
      | uuid u' =>
        simp only [ValRelPre] at hrel
        subst hrel
        have hnone : idOf (flatTop (forest g flat cull) 0) u = none := by
          cases hid : idOf (flatTop (forest g flat cull) 0) u with
          | none => rfl
          | some k =>
            obtain ⟨n', hk, hnu⟩ := idOf_some hid
            obtain ⟨x', e', _, he', heu⟩ := node_uuid k n' u hk hnu
            have : u ∈ g.elems.map (·.uuid) := List.mem_map.mpr ⟨e', List.mem_of_getElem? he', heu⟩
            simp [this] at hst
        simp [fixVal, hnone, ValRel]
      | null => simp [ValRelPre] at hrel
      | node k => simp [ValRelPre] at hrel
      | text s => simp [ValRelPre] at hrel
    | idx j =>
      simp only [valWf, Bool.and_eq_true, decide_eq_true_eq] at hvw
      have hjl : j < g.elems.length := hvw.1.2
      cases fv with
      | node k =>
        simp only [ValRelPre] at hrel
        simpa [fixVal, ValRel] using hrel.2
      | uuid u' =>
        simp only [ValRelPre] at hrel
        obtain ⟨hroot, rfl⟩ := hrel
        have hej : g.elems[j]? = some g.elems[j] := List.getElem?_eq_getElem hjl
        have huat : uuidAt g j = g.elems[j].uuid := by simp [uuidAt, hej]
        -- some node carries this UUID: the top-level copy of element j
        have hjr : j ∈ roots g flat := by
          simp only [roots, List.mem_filter, List.mem_range]; exact ⟨hjl, hroot⟩
        obtain ⟨k0, hk0l, hk0⟩ := List.mem_iff_getElem.mp (root_in_order g flat hn hjr)
        have hk0' : (order g flat)[k0]? = some j := by rw [List.getElem?_eq_getElem hk0l, hk0]
        obtain ⟨n0, hn0, e0, he0, _, _, hu0, _⟩ := forall₂_getElem?_left H hk0'
        have he0j : e0 = g.elems[j] := by rw [hej] at he0; exact (Option.some.inj he0).symm
        have hn0u : n0.uuid = some (uuidAt g j) := by
          rw [hu0, hroot, huat, he0j]; simp
        cases hid : idOf (flatTop (forest g flat cull) 0) (uuidAt g j) with
        | none => exact absurd hn0u (idOf_none hid k0 n0 hn0)
        | some k =>
          obtain ⟨n', hk, hnu⟩ := idOf_some hid
          obtain ⟨x', e', hx', he', heu⟩ := node_uuid k n' _ hk hnu
          have : x' = j := uuid_inj g hu he' hej (by rw [heu, huat])
          subst this
          simp [fixVal, hid, ValRel, hx']
      | null => simp [ValRelPre] at hrel
      | text s => simp [ValRelPre] at hrel

end main

end C14.Kv2
