import Srctools.Model.C20Bvcd
import Srctools.Proofs.C20
import Srctools.Proofs.C20Img
/-! Helper lemmas for the BVCD codec model: every reader inverts its writer (up to quantisation). -/
namespace B64

theorem roundHE_exact' (q d : Nat) (hd : 0 < d) : roundHE (q * d) d = q := by
  unfold roundHE
  simp [Nat.mul_div_cancel _ hd, Nat.mul_mod_left, hd]

/-- a magnitude that is a multiple of its binade's spacing is represented exactly -/
theorem rnd_exact (s : Bool) (q d : Nat) (hd : 0 < d) (hdiv : 2 ^ quantExp q ∣ q) (hq : q < maxMag) :
    rnd s (q * d) d = .fin s q := by
  unfold rnd roundMag
  simp only [Nat.mul_div_cancel _ hd]
  generalize hk : quantExp q = k at hdiv
  obtain ⟨c, hc⟩ := hdiv
  have h2 : 0 < 2 ^ k := Nat.two_pow_pos _
  have e1 : q * d = c * (d * 2 ^ k) := by
    rw [hc]; simp [Nat.mul_comm, Nat.mul_left_comm]
  rw [e1, roundHE_exact' c _ (Nat.mul_pos hd h2)]
  have hq' : c * 2 ^ k = q := by rw [hc, Nat.mul_comm]
  rw [hq']
  simp [hq]

theorem quantExp_dvd (b e : Nat) (hb : b < 2 ^ 16) (he : 1062 ≤ e) (he2 : e ≤ 1074) :
    2 ^ quantExp (b * 2 ^ e) ∣ b * 2 ^ e := by
  by_cases hb0 : b = 0
  · subst hb0; simp
  · have hpos : b * 2 ^ e ≠ 0 := Nat.mul_ne_zero hb0 (Nat.pos_iff_ne_zero.mp (Nat.two_pow_pos _))
    have hlt : b * 2 ^ e < 2 ^ (16 + e) := by
      rw [Nat.pow_add]; exact Nat.mul_lt_mul_of_pos_right hb (Nat.two_pow_pos _)
    have hlog : (b * 2 ^ e).log2 < 16 + e := (Nat.log2_lt hpos).mpr hlt
    have hk : quantExp (b * 2 ^ e) ≤ e := by unfold quantExp; omega
    exact Nat.dvd_trans (Nat.pow_dvd_pow 2 hk) (Nat.dvd_mul_left _ _)

theorem div_fin (s1 s2 : Bool) (m1 m2 : Nat) (h : m2 ≠ 0) :
    div (.fin s1 m1) (.fin s2 m2) = some (rnd (s1 != s2) (m1 * U) m2) := by
  cases m2 with
  | zero => exact absurd rfl h
  | succ k => rfl

theorem mul_fin (s1 s2 : Bool) (m1 m2 : Nat) :
    mul (.fin s1 m1) (.fin s2 m2) = rnd (s1 != s2) (m1 * m2) U := rfl

end B64

namespace C20.Bvcd
open C20

/-- Reader `r` consumes exactly `enc` and returns `a`, whatever follows. -/
def Reads {α : Type} (r : Rd α) (enc : Bytes) (a : α) : Prop :=
  ∀ rest, r (enc ++ rest) = some (a, rest)

theorem Reads.bind {α β : Type} {r : Rd α} {f : α → Rd β} {e1 e2 : Bytes} {a : α} {b : β}
    (h1 : Reads r e1 a) (h2 : Reads (f a) e2 b) : Reads (r.bind f) (e1 ++ e2) b := by
  intro rest
  simp only [Rd.bind, List.append_assoc, h1 (e2 ++ rest), Option.bind_some, h2 rest]

theorem Reads.pure {α : Type} (a : α) : Reads (Rd.pure a) [] a := fun _ => rfl

theorem Reads.bind_cons {α β : Type} {r : Rd α} {f : α → Rd β} {x : UInt8} {e2 : Bytes} {a : α} {b : β}
    (h1 : Reads r [x] a) (h2 : Reads (f a) e2 b) : Reads (r.bind f) (x :: e2) b :=
  Reads.bind (e1 := [x]) h1 h2

theorem Reads.bind_pure {α β : Type} {r : Rd α} {g : α → β} {e : Bytes} {a : α}
    (h1 : Reads r e a) : Reads (r.bind fun a => Rd.pure (g a)) e (g a) := by
  have := Reads.bind (f := fun a => Rd.pure (g a)) h1 (Reads.pure (g a))
  simpa using this

theorem Reads.bind_eq {α β : Type} {r : Rd α} {f : α → Rd β} {e : Bytes} {a : α} {b : β}
    (h1 : Reads r e a) (hf : f a = Rd.pure b) : Reads (r.bind f) e b := by
  have := Reads.bind (f := f) h1 (hf ▸ Reads.pure b)
  simpa using this

theorem Reads.congr {α : Type} {r r' : Rd α} {e : Bytes} {a : α} (h : Reads r e a) (hr : r' = r) :
    Reads r' e a := hr ▸ h

theorem u8_toNat (n : Nat) (h : n < 256) : (u8 n).toNat = n := by
  simp only [u8, UInt8.toNat_ofNat']; omega

theorem reads_u8 (n : Nat) (h : n < 256) : Reads rdU8 [u8 n] n := by
  intro rest
  simp [rdU8, u8_toNat n h]

theorem unle16_le16 (n : Nat) (h : n < 65536) : unle16 (le16 n) = n := by
  simp only [le16, unle16, UInt8.toNat_ofNat']; omega

theorem reads_u16 (n : Nat) (h : n < 65536) : Reads rdU16 (le16 n) n := by
  intro rest
  simp only [rdU16]
  rw [takeN_append 2 (le16 n) rest rfl]
  simp [unle16_le16 n h]

theorem reads_u32 (n : Nat) (h : n < 4294967296) : Reads rdU32 (le32 n) n := by
  intro rest
  simp only [rdU32]
  rw [takeN_append 4 (le32 n) rest rfl]
  simp [unle32_le32 n h]

theorem reads_bool (b : Bool) : Reads rdBool [u8 (bit b)] b := by
  intro rest
  cases b <;> simp [rdBool, u8, bit] <;> decide

/-- String `s` has a (non-negative `<h`) pool index that the pool resolves back to it. -/
def strOK (ix : Bytes → Nat) (pool : List Bytes) (s : Bytes) : Prop :=
  ix s < 32768 ∧ pool[ix s]? = some s

instance (ix : Bytes → Nat) (pool : List Bytes) (s : Bytes) : Decidable (strOK ix pool s) := by
  unfold strOK; infer_instance

theorem reads_str {ix : Bytes → Nat} {pool : List Bytes} {s : Bytes} (h : strOK ix pool s) :
    Reads (rdStr pool) (le16 (ix s)) s := by
  have h1 := reads_u16 (ix s) (by have := h.1; omega)
  have hp : pyIndex pool (ix s) = some s := by simp [pyIndex, h.1, h.2]
  intro rest
  simp only [rdStr, Rd.bind, h1 rest, Option.bind_some, hp]
  rfl

theorem reads_list {α β : Type} (r : Rd β) (enc : α → Bytes) (q : α → β) (xs : List α)
    (h : ∀ x ∈ xs, Reads r (enc x) (q x)) : Reads (rdList r xs.length) (flat enc xs) (xs.map q) := by
  induction xs with
  | nil => exact Reads.pure []
  | cons x xs ih =>
    simp only [List.length_cons, rdList, flat, List.map_cons, List.flatten_cons]
    refine Reads.bind (h x (by simp)) ?_
    exact Reads.bind_pure (g := fun as => q x :: as) (ih (fun y hy => h y (by simp [hy])))


/-! ## records -/

def f32 (n : Nat) : Prop := n < 4294967296

theorem encV_le (K hi : Nat) (v : QVal) : encV K hi v ≤ hi := encQ_le hi _ _

theorem reads_q8 (v : QVal) : Reads rdU8 [encQ8 v] (encV 255 255 v) :=
  reads_u8 _ (by have := encV_le 255 255 v; omega)

theorem reads_rampSample (s : RampSample) (h : f32 s.time) :
    Reads rdRampSample (encRampSample s) (qRampSample s) := by
  unfold rdRampSample encRampSample
  refine Reads.bind (reads_u32 _ h) ?_
  exact Reads.bind_pure (g := fun v => ({ time := s.time, value := code v } : RampSample)) (reads_q8 s.value)

def rampOK (r : List RampSample) : Prop := r.length < 256 ∧ ∀ s ∈ r, f32 s.time

/-- `Curve`: `parse_binary (export_binary r)` is `r` with every value quantised to k/255. -/
theorem reads_ramp (r : List RampSample) (h : rampOK r) :
    Reads rdRamp (encRamp r) (r.map qRampSample) := by
  unfold rdRamp encRamp
  exact Reads.bind_cons (reads_u8 _ h.1) (reads_list _ _ _ r (fun s hs => reads_rampSample s (h.2 s hs)))

theorem reads_tag {ix : Bytes → Nat} {pool : List Bytes} (t : Tag) (h : strOK ix pool t.name) :
    Reads (rdTag pool) (encTag ix t) (qTag t) := by
  unfold rdTag encTag
  refine Reads.bind (reads_str h) ?_
  exact Reads.bind_pure (g := fun v => ({ name := t.name, value := code v } : Tag)) (reads_q8 t.value)

theorem reads_absTag {ix : Bytes → Nat} {pool : List Bytes} (t : Tag) (h : strOK ix pool t.name) :
    Reads (rdAbsTag pool) (encAbsTag ix t) (qAbsTag t) := by
  unfold rdAbsTag encAbsTag
  refine Reads.bind (reads_str h) ?_
  exact Reads.bind_pure (g := fun v => ({ name := t.name, value := code4096 v } : Tag))
    (reads_u16 _ (by have := encV_le 4096 65535 t.value; omega))

def tagsOK (ix : Bytes → Nat) (pool : List Bytes) (ts : List Tag) : Prop :=
  ts.length < 256 ∧ ∀ t ∈ ts, strOK ix pool t.name

/-- `Tag` / `TimingTag` lists: names through the pool, values quantised to k/255. -/
theorem reads_tags {ix : Bytes → Nat} {pool : List Bytes} (ts : List Tag) (h : tagsOK ix pool ts) :
    Reads (rdTags pool) (encTags ix ts) (ts.map qTag) := by
  unfold rdTags encTags
  exact Reads.bind_cons (reads_u8 _ h.1) (reads_list _ _ _ ts (fun t ht => reads_tag t (h.2 t ht)))

/-- `AbsoluteTag` lists: values quantised to k/4096 (16 bits). -/
theorem reads_absTags {ix : Bytes → Nat} {pool : List Bytes} (ts : List Tag) (h : tagsOK ix pool ts) :
    Reads (rdAbsTags pool) (encAbsTags ix ts) (ts.map qAbsTag) := by
  unfold rdAbsTags encAbsTags
  exact Reads.bind_cons (reads_u8 _ h.1) (reads_list _ _ _ ts (fun t ht => reads_absTag t (h.2 t ht)))

def fsOK (s : FlexSample) : Prop := f32 s.time ∧ s.c1 ≤ 15 ∧ s.c2 ≤ 15

/-- one flex sample: time, quantised value, the two interpolation codes. -/
theorem reads_flexSample (s : FlexSample) (h : fsOK s) :
    Reads rdFlexSample (encFlexSample s) (qFlexSample s) := by
  obtain ⟨ht, h1, h2⟩ := h
  unfold rdFlexSample encFlexSample
  refine Reads.bind (reads_u32 _ ht) ?_
  refine Reads.bind_cons (reads_q8 s.value) ?_
  have hc : s.c1 * 256 + s.c2 < 65536 := by omega
  have e1 : (s.c1 * 256 + s.c2) / 256 % 256 = s.c1 := by omega
  have e2 : (s.c1 * 256 + s.c2) % 256 = s.c2 := by omega
  refine Reads.bind_eq (reads_u16 _ hc) ?_
  rw [e1, e2]
  simp [interpMax, h1, h2, qFlexSample, qv]


def dirOK : Option (List FlexSample) → Prop
  | none => True
  | some d => d.length < 65536 ∧ ∀ s ∈ d, fsOK s

def flexOK (ix : Bytes → Nat) (pool : List Bytes) (f : Flex) : Prop :=
  strOK ix pool f.name ∧ f32 f.min ∧ f32 f.max ∧ f.mag.length < 32768 ∧ (∀ s ∈ f.mag, fsOK s) ∧
  dirOK f.dir

instance (n : Nat) : Decidable (f32 n) := by unfold f32; infer_instance
instance (s : FlexSample) : Decidable (fsOK s) := by unfold fsOK; infer_instance
instance : (o : Option (List FlexSample)) → Decidable (dirOK o)
  | none => isTrue trivial
  | some d => by unfold dirOK; infer_instance
instance (ix : Bytes → Nat) (pool : List Bytes) (f : Flex) : Decidable (flexOK ix pool f) := by
  unfold flexOK; infer_instance

theorem flexFlags_lt (a : Bool) (d : Bool) : bit a + 2 * bit d < 256 := by
  cases a <;> cases d <;> simp [bit]

/-- `FlexAnimTrack`: name through the pool, flags, range, magnitude samples and the optional
direction samples. -/
theorem reads_flex {ix : Bytes → Nat} {pool : List Bytes} (f : Flex) (h : flexOK ix pool f) :
    Reads (rdFlex pool) (encFlex ix f) (qFlex f) := by
  obtain ⟨hn, hmin, hmax, hlen, hmag, hdir⟩ := h
  unfold rdFlex encFlex
  refine Reads.bind (reads_str hn) ?_
  refine Reads.bind_cons (reads_u8 _ (flexFlags_lt _ _)) ?_
  refine Reads.bind (reads_u32 _ hmin) ?_
  refine Reads.bind (reads_u32 _ hmax) ?_
  refine Reads.bind (reads_u16 _ (by omega)) ?_
  simp only [hlen, if_true]
  refine Reads.bind (reads_list _ _ _ f.mag (fun s hs => reads_flexSample s (hmag s hs))) ?_
  obtain ⟨name, active, mn, mx, mag, dir⟩ := f
  cases dir with
  | none =>
    intro rest
    cases active <;> simp [encDir, Rd.bind, Rd.pure, bit, qFlex]
  | some d =>
    obtain ⟨hdl, hds⟩ := hdir
    have hfl : (bit active + 2 * bit (some d).isSome) / 2 % 2 = 1 := by cases active <;> simp [bit]
    simp only [hfl, if_true, encDir]
    have hd := Reads.bind (f := fun dc => (rdList rdFlexSample dc).bind fun d => Rd.pure (some d))
      (reads_u16 _ hdl)
      (Reads.bind_pure (g := fun d => some d) (reads_list _ _ _ d (fun s hs => reads_flexSample s (hds s hs))))
    refine Reads.bind_eq hd ?_
    cases active <;> simp [bit, qFlex]


/-! ## events -/

def extraOK (ix : Bytes → Nat) (pool : List Bytes) : Extra → Prop
  | .plain t => t ≤ tMax ∧ t ≠ tGesture ∧ t ≠ tLoop ∧ t ≠ tSpeak
  | .gesture d => f32 d
  | .loop c => -128 ≤ c ∧ c ≤ 127
  | .speak cc tok _ _ _ => cc ≤ ccDisabled ∧ strOK ix pool tok

def gdurOf : Extra → Nat
  | .gesture d => d
  | _ => 0

instance (ix : Bytes → Nat) (pool : List Bytes) : (x : Extra) → Decidable (extraOK ix pool x)
  | .plain _ => by unfold extraOK; infer_instance
  | .gesture _ => by unfold extraOK; infer_instance
  | .loop _ => by unfold extraOK; infer_instance
  | .speak .. => by unfold extraOK; infer_instance

theorem typeCode_le {ix : Bytes → Nat} {pool : List Bytes} {x : Extra} (h : extraOK ix pool x) :
    x.typeCode ≤ tMax := by
  cases x <;> simp [Extra.typeCode, extraOK, tMax, tGesture, tLoop, tSpeak] at h ⊢
  exact h.1

theorem reads_gesture {ix : Bytes → Nat} {pool : List Bytes} (x : Extra) (h : extraOK ix pool x) :
    Reads (if x.typeCode = tGesture then rdU32 else Rd.pure 0) (encGesture x) (gdurOf x) := by
  cases x with
  | gesture d => simpa [Extra.typeCode, encGesture, gdurOf] using reads_u32 d h
  | plain t =>
    have : t ≠ tGesture := h.2.1
    simpa [Extra.typeCode, encGesture, gdurOf, this] using Reads.pure 0
  | loop c => simpa [Extra.typeCode, encGesture, gdurOf, tLoop, tGesture] using Reads.pure 0
  | speak cc tok a b c => simpa [Extra.typeCode, encGesture, gdurOf, tSpeak, tGesture] using Reads.pure 0

theorem speakFlags_lt (a b c : Bool) : bit a + 2 * bit b + 4 * bit c < 256 := by
  cases a <;> cases b <;> cases c <;> simp [bit]

theorem reads_tail {ix : Bytes → Nat} {pool : List Bytes} (x : Extra) (h : extraOK ix pool x) :
    Reads (rdTail pool x.typeCode (gdurOf x)) (encTail ix x) (qExtra x) := by
  cases x with
  | plain t =>
    obtain ⟨_, h1, h2, h3⟩ := h
    simpa [rdTail, Extra.typeCode, encTail, qExtra, h1, h2, h3] using Reads.pure (Extra.plain t)
  | gesture d => simpa [rdTail, Extra.typeCode, encTail, qExtra, gdurOf] using Reads.pure (Extra.gesture d)
  | loop c =>
    obtain ⟨h1, h2⟩ := h
    simp only [rdTail, Extra.typeCode, encTail, qExtra, tLoop, tGesture, show (12 : Nat) ≠ 6 by decide, if_false, if_true]
    intro rest
    have hb : (i8 c).toNat = (c % 256).toNat := by
      simp only [i8, UInt8.toNat_ofNat']; omega
    simp only [Rd.bind, rdU8, List.cons_append, List.nil_append, Option.bind_some, Rd.pure, hb]
    have : uni8 (c % 256).toNat = c := by unfold uni8; split <;> omega
    rw [this]
  | speak cc tok a b c =>
    obtain ⟨hcc, htok⟩ := h
    simp only [ccDisabled] at hcc
    simp only [rdTail, Extra.typeCode, encTail, tSpeak, tLoop, tGesture, show (5 : Nat) ≠ 6 by decide,
      show (5 : Nat) ≠ 12 by decide, if_false, if_true]
    refine Reads.bind_cons (reads_u8 cc (by omega)) ?_
    refine Reads.bind (reads_str htok) ?_
    refine Reads.bind_eq (reads_u8 _ (speakFlags_lt _ _ _)) ?_
    have hc : cc ≤ ccDisabled := by simp only [ccDisabled]; omega
    simp only [hc, if_true, qExtra]
    generalize (cc != ccDisabled && a) = a'
    cases a' <;> cases b <;> cases c <;> simp [bit]

def relTagOK (ix : Bytes → Nat) (pool : List Bytes) (tn tw : Option Bytes) : Prop :=
  (tn.isSome || tw.isSome) = true → strOK ix pool (tn.getD []) ∧ strOK ix pool (tw.getD [])

theorem reads_relTag {ix : Bytes → Nat} {pool : List Bytes} (tn tw : Option Bytes)
    (h : relTagOK ix pool tn tw) :
    Reads (rdRelTag pool) (encRelTag ix tn tw)
      ((if tn.isSome || tw.isSome then some (tn.getD []) else none),
       (if tn.isSome || tw.isSome then some (tw.getD []) else none)) := by
  unfold rdRelTag encRelTag
  by_cases hc : (tn.isSome || tw.isSome) = true
  · obtain ⟨h1, h2⟩ := h hc
    simp only [hc, if_true]
    refine Reads.bind_cons (a := 1) (by intro rest; rfl) ?_
    simp only [show ((1 : Nat) != 0) = true from rfl, if_true]
    refine Reads.bind (reads_str h1) ?_
    exact Reads.bind_pure (g := fun b => (some (tn.getD []), some b)) (reads_str h2)
  · simp only [hc, Bool.false_eq_true, if_false]
    refine Reads.bind_eq (e := [0]) (a := 0) (by intro rest; rfl) ?_
    simp

def eventOK (ix : Bytes → Nat) (pool : List Bytes) (e : Event) : Prop :=
  extraOK ix pool e.extra ∧ strOK ix pool e.name ∧ strOK ix pool e.p1 ∧ strOK ix pool e.p2 ∧
  strOK ix pool e.p3 ∧ f32 e.start ∧ f32 e.stop ∧ f32 e.dist ∧ e.flags < flagsEnd ∧ rampOK e.ramp ∧
  tagsOK ix pool e.rel ∧ tagsOK ix pool e.timing ∧ tagsOK ix pool e.absP ∧ tagsOK ix pool e.absS ∧
  relTagOK ix pool e.tagName e.tagWav ∧ e.flex.length < 256 ∧ ∀ f ∈ e.flex, flexOK ix pool f

instance (r : List RampSample) : Decidable (rampOK r) := by unfold rampOK; infer_instance
instance (ix : Bytes → Nat) (pool : List Bytes) (ts : List Tag) : Decidable (tagsOK ix pool ts) := by
  unfold tagsOK; infer_instance
instance (ix : Bytes → Nat) (pool : List Bytes) (a b : Option Bytes) : Decidable (relTagOK ix pool a b) := by
  unfold relTagOK; infer_instance
instance (ix : Bytes → Nat) (pool : List Bytes) (e : Event) : Decidable (eventOK ix pool e) := by
  unfold eventOK; infer_instance

/-- `Event` (all four classes): `parse_binary (export_binary e) = qEvent e`. -/
theorem reads_event {ix : Bytes → Nat} {pool : List Bytes} (e : Event) (h : eventOK ix pool e) :
    Reads (rdEvent pool) (encEvent ix e) (qEvent e) := by
  obtain ⟨hx, hn, hp1, hp2, hp3, hst, hsp, hdi, hfl, hra, hrel, htim, hap, has, hrt, hfc, hflex⟩ := h
  have hty := typeCode_le hx
  unfold rdEvent encEvent
  refine Reads.bind_cons (reads_u8 _ (by simp only [tMax] at hty; omega)) ?_
  rw [if_neg (by omega)]
  refine Reads.bind (reads_str hn) ?_
  refine Reads.bind (reads_u32 _ hst) ?_
  refine Reads.bind (reads_u32 _ hsp) ?_
  refine Reads.bind (reads_str hp1) ?_
  refine Reads.bind (reads_str hp2) ?_
  refine Reads.bind (reads_str hp3) ?_
  refine Reads.bind (reads_ramp _ hra) ?_
  refine Reads.bind_cons (reads_u8 _ (by simp only [flagsEnd] at hfl; omega)) ?_
  rw [if_neg (by omega)]
  refine Reads.bind (reads_u32 _ hdi) ?_
  refine Reads.bind (reads_tags _ hrel) ?_
  refine Reads.bind (reads_tags _ htim) ?_
  refine Reads.bind (reads_absTags _ hap) ?_
  refine Reads.bind (reads_absTags _ has) ?_
  refine Reads.bind (reads_gesture _ hx) ?_
  refine Reads.bind (reads_relTag _ _ hrt) ?_
  refine Reads.bind_cons (reads_u8 _ hfc) ?_
  refine Reads.bind (reads_list _ _ _ e.flex (fun f hf => reads_flex f (hflex f hf))) ?_
  refine Reads.bind_eq (reads_tail _ hx) ?_
  rfl


/-! ## channels, actors, scene -/

def channelOK (ix : Bytes → Nat) (pool : List Bytes) (c : Channel) : Prop :=
  strOK ix pool c.name ∧ c.events.length < 256 ∧ ∀ e ∈ c.events, eventOK ix pool e

instance (ix : Bytes → Nat) (pool : List Bytes) (c : Channel) : Decidable (channelOK ix pool c) := by
  unfold channelOK; infer_instance

theorem reads_channel {ix : Bytes → Nat} {pool : List Bytes} (c : Channel) (h : channelOK ix pool c) :
    Reads (rdChannel pool) (encChannel ix c) (qChannel c) := by
  obtain ⟨hn, hl, he⟩ := h
  unfold rdChannel encChannel
  refine Reads.bind (reads_str hn) ?_
  refine Reads.bind_cons (reads_u8 _ hl) ?_
  refine Reads.bind (reads_list _ _ _ c.events (fun e hx => reads_event e (he e hx))) ?_
  exact Reads.bind_pure (g := fun a => ({ name := c.name, active := a, events := c.events.map qEvent } : Channel))
    (reads_bool c.active)

def actorOK (ix : Bytes → Nat) (pool : List Bytes) (a : Actor) : Prop :=
  strOK ix pool a.name ∧ a.channels.length < 256 ∧ ∀ c ∈ a.channels, channelOK ix pool c

instance (ix : Bytes → Nat) (pool : List Bytes) (a : Actor) : Decidable (actorOK ix pool a) := by
  unfold actorOK; infer_instance

theorem reads_actor {ix : Bytes → Nat} {pool : List Bytes} (a : Actor) (h : actorOK ix pool a) :
    Reads (rdActor pool) (encActor ix a) (qActor a) := by
  obtain ⟨hn, hl, hc⟩ := h
  unfold rdActor encActor
  refine Reads.bind (reads_str hn) ?_
  refine Reads.bind_cons (reads_u8 _ hl) ?_
  refine Reads.bind (reads_list _ _ _ a.channels (fun c hx => reads_channel c (hc c hx))) ?_
  exact Reads.bind_pure (g := fun b => ({ name := a.name, active := b, channels := a.channels.map qChannel } : Actor))
    (reads_bool a.active)

/-- Representable scene: every string has a non-negative 16-bit pool index the pool resolves,
counts fit their byte / 16-bit fields, float32 and CRC fields are 32-bit patterns, enum codes are
members (event type, flags, caption type, interpolation), loop counts are signed bytes. -/
def sceneOK (ix : Bytes → Nat) (pool : List Bytes) (s : Scene) : Prop :=
  s.crc < 4294967296 ∧ s.events.length < 256 ∧ (∀ e ∈ s.events, eventOK ix pool e) ∧
  s.actors.length < 256 ∧ (∀ a ∈ s.actors, actorOK ix pool a) ∧ rampOK s.ramp

instance (ix : Bytes → Nat) (pool : List Bytes) (s : Scene) : Decidable (sceneOK ix pool s) := by
  unfold sceneOK; infer_instance

theorem reads_scene {ix : Bytes → Nat} {pool : List Bytes} (s : Scene) (h : sceneOK ix pool s) :
    Reads (rdScene pool) (encScene ix s) (quantScene s) := by
  obtain ⟨hcrc, hel, he, hal, ha, hr⟩ := h
  intro rest
  unfold rdScene encScene
  simp only [List.append_assoc]
  rw [takeN_append 4 magic _ rfl]
  simp only [Option.bind_some, bne_self_eq_false, Bool.false_eq_true, if_false]
  have inner : Reads
      (rdU8.bind fun v => if v != binVersion then Rd.fail else
        rdU32.bind fun crc => rdU8.bind fun ne => (rdList (rdEvent pool) ne).bind fun events =>
        rdU8.bind fun na => (rdList (rdActor pool) na).bind fun actors =>
        rdRamp.bind fun ramp => rdBool.bind fun ip =>
        Rd.pure { crc, events, actors, ramp, ignorePhonemes := ip })
      (u8 binVersion :: (le32 s.crc ++ (u8 s.events.length :: (flat (encEvent ix) s.events ++
        (u8 s.actors.length :: (flat (encActor ix) s.actors ++ (encRamp s.ramp ++
          [u8 (bit s.ignorePhonemes)])))))))
      (quantScene s) := by
    refine Reads.bind_cons (reads_u8 _ (by decide)) ?_
    simp only [bne_self_eq_false, Bool.false_eq_true, if_false]
    refine Reads.bind (reads_u32 _ hcrc) ?_
    refine Reads.bind_cons (reads_u8 _ hel) ?_
    refine Reads.bind (reads_list _ _ _ s.events (fun e hx => reads_event e (he e hx))) ?_
    refine Reads.bind_cons (reads_u8 _ hal) ?_
    refine Reads.bind (reads_list _ _ _ s.actors (fun a hx => reads_actor a (ha a hx))) ?_
    refine Reads.bind (reads_ramp _ hr) ?_
    exact Reads.bind_pure (g := fun ip => Scene.mk s.crc (s.events.map qEvent) (s.actors.map qActor)
      (s.ramp.map qRampSample) ip) (reads_bool s.ignorePhonemes)
  exact inner rest

/-! ## second generation: encoding the decoded scene gives the same bytes -/

/-- every 8-bit code is written back from the float64 value the reader makes of it:
`round((b / 255.0) * 255.0) = b` in IEEE double arithmetic, all 256 codes (kernel-evaluated). -/
theorem enc_dec255 : ∀ b, b < 256 → encV 255 255 (decV 255 b) = b := by decide +kernel

theorem prodFrac_fin (K : Nat) (v : QVal) (m : Nat) (h : B64.mul v (B64.ofNatVal K) = .fin false m) :
    prodFrac K v = ((m : Int), B64.U) := by
  unfold prodFrac
  rw [h]
  rfl

theorem hdecT (b : Nat) (hb : b < 65536) : decV 4096 b = .fin false (b * 2 ^ 1062) := by
  have hb16 : b < 2 ^ 16 := by simpa using hb
  have hU : B64.U = 2 ^ 1074 := rfl
  unfold decV B64.ofNatVal
  have h4096 : 4096 * B64.U ≠ 0 := by rw [hU]; exact Nat.mul_ne_zero (by decide) (Nat.pos_iff_ne_zero.mp (Nat.two_pow_pos _))
  have hn : b * B64.U * B64.U = (b * 2 ^ 1062) * (4096 * B64.U) := by
    rw [hU, show (4096 : Nat) = 2 ^ 12 from rfl, ← Nat.pow_add, Nat.mul_assoc, Nat.mul_assoc, ← Nat.pow_add, ← Nat.pow_add]
  have hlt : b * 2 ^ 1062 < B64.maxMag := by
    have : b * 2 ^ 1062 < 2 ^ (16 + 1062) := by
      rw [Nat.pow_add]; exact Nat.mul_lt_mul_of_pos_right hb16 (Nat.two_pow_pos _)
    exact Nat.lt_trans this (by unfold B64.maxMag; exact Nat.pow_lt_pow_right (by decide) (by decide))
  rw [B64.div_fin false false _ _ h4096, show (false != false) = false from rfl, hn,
    B64.rnd_exact false _ _ (Nat.pos_of_ne_zero h4096) (B64.quantExp_dvd b 1062 hb16 (Nat.le_refl _) (by decide)) hlt]
  rfl

theorem hmulT (b : Nat) (hb : b < 65536) :
    B64.mul (.fin false (b * 2 ^ 1062)) (B64.ofNatVal 4096) = .fin false (b * B64.U) := by
  have hb16 : b < 2 ^ 16 := by simpa using hb
  have hU : B64.U = 2 ^ 1074 := rfl
  unfold B64.ofNatVal
  have hn : b * 2 ^ 1062 * (4096 * B64.U) = (b * B64.U) * B64.U := by
    rw [hU, show (4096 : Nat) = 2 ^ 12 from rfl, ← Nat.pow_add, Nat.mul_assoc, Nat.mul_assoc, ← Nat.pow_add, ← Nat.pow_add]
  have hlt : b * B64.U < B64.maxMag := by
    have : b * 2 ^ 1074 < 2 ^ (16 + 1074) := by
      rw [Nat.pow_add]; exact Nat.mul_lt_mul_of_pos_right hb16 (Nat.two_pow_pos _)
    rw [hU]
    exact Nat.lt_trans this (by unfold B64.maxMag; exact Nat.pow_lt_pow_right (by decide) (by decide))
  have hUpos : 0 < B64.U := by rw [hU]; exact Nat.two_pow_pos _
  have hdv : 2 ^ B64.quantExp (b * B64.U) ∣ b * B64.U := by
    rw [hU]; exact B64.quantExp_dvd b 1074 hb16 (by decide) (Nat.le_refl _)
  rw [B64.mul_fin, show (false != false) = false from rfl, hn, B64.rnd_exact false (b * B64.U) B64.U hUpos hdv hlt]
/-- every 16-bit code of an absolute tag is written back from the float64 value the reader makes
of it: dividing by 4096.0 and multiplying back are both exact (the value is a multiple of its
binade's spacing) — proved for all 65536 codes, not enumerated. -/
theorem enc_dec4096 (b : Nat) (hb : b < 65536) : encV 4096 65535 (decV 4096 b) = b := by
  have hUpos : 0 < B64.U := Nat.two_pow_pos _
  have hm : B64.mul (decV 4096 b) (B64.ofNatVal 4096) = .fin false (b * B64.U) := by
    rw [hdecT b hb]; exact hmulT b hb
  unfold encV
  rw [prodFrac_fin _ _ _ hm]
  show encQ 65535 ((b * B64.U : Nat) : Int) B64.U = b
  generalize B64.U = U at hUpos ⊢
  rw [Int.natCast_mul]
  exact encQ_exact 65535 b U hUpos (by omega)

theorem qv_idem (v : QVal) : encV 255 255 (qv v) = encV 255 255 v := by
  unfold qv code
  exact enc_dec255 _ (by have := encV_le 255 255 v; omega)

theorem qv4096_idem (v : QVal) : encV 4096 65535 (qv4096 v) = encV 4096 65535 v := by
  unfold qv4096 code4096
  exact enc_dec4096 _ (by have := encV_le 4096 65535 v; omega)

theorem flat_map_q {α : Type} (enc : α → Bytes) (q : α → α) (l : List α) (h : ∀ x, enc (q x) = enc x) :
    flat enc (l.map q) = flat enc l := by
  simp [flat, List.map_map, Function.comp_def, h]

theorem encQ8_q (v : QVal) : encQ8 (qv v) = encQ8 v := by unfold encQ8; rw [qv_idem]

theorem encRampSample_q (s : RampSample) : encRampSample (qRampSample s) = encRampSample s := by
  unfold encRampSample qRampSample
  dsimp only
  rw [encQ8_q]

theorem encRamp_q (r : List RampSample) : encRamp (r.map qRampSample) = encRamp r := by
  simp [encRamp, flat_map_q _ _ _ encRampSample_q]

theorem encTag_q (ix : Bytes → Nat) (t : Tag) : encTag ix (qTag t) = encTag ix t := by
  unfold encTag qTag
  dsimp only
  rw [encQ8_q]

theorem encAbsTag_q (ix : Bytes → Nat) (t : Tag) : encAbsTag ix (qAbsTag t) = encAbsTag ix t := by
  unfold encAbsTag qAbsTag
  dsimp only
  rw [qv4096_idem]

theorem encTags_q (ix : Bytes → Nat) (ts : List Tag) : encTags ix (ts.map qTag) = encTags ix ts := by
  simp [encTags, flat_map_q _ _ _ (encTag_q ix)]

theorem encAbsTags_q (ix : Bytes → Nat) (ts : List Tag) : encAbsTags ix (ts.map qAbsTag) = encAbsTags ix ts := by
  simp [encAbsTags, flat_map_q _ _ _ (encAbsTag_q ix)]

theorem encFlexSample_q (s : FlexSample) : encFlexSample (qFlexSample s) = encFlexSample s := by
  unfold encFlexSample qFlexSample
  dsimp only
  rw [encQ8_q]

theorem encFlex_q (ix : Bytes → Nat) (f : Flex) : encFlex ix (qFlex f) = encFlex ix f := by
  obtain ⟨name, active, mn, mx, mag, dir⟩ := f
  cases dir <;> simp [encFlex, qFlex, encDir, flat_map_q _ _ _ encFlexSample_q]

theorem encEvent_q (ix : Bytes → Nat) (e : Event) : encEvent ix (qEvent e) = encEvent ix e := by
  obtain ⟨extra, name, start, stop, p1, p2, p3, ramp, flags, dist, rel, timing, absP, absS, tn, tw, flex⟩ := e
  have hx : (qExtra extra).typeCode = extra.typeCode := by cases extra <;> rfl
  have hg : encGesture (qExtra extra) = encGesture extra := by cases extra <;> rfl
  have ht : encTail ix (qExtra extra) = encTail ix extra := by
    cases extra with
    | speak cc tok a b c => simp [encTail, qExtra]
    | _ => rfl
  have hr : encRelTag ix (if tn.isSome || tw.isSome then some (tn.getD []) else none)
      (if tn.isSome || tw.isSome then some (tw.getD []) else none) = encRelTag ix tn tw := by
    cases tn <;> cases tw <;> simp [encRelTag]
  simp only [encEvent, qEvent, hx, hg, ht, hr, encRamp_q, encTags_q, encAbsTags_q, List.length_map,
    flat_map_q _ _ _ (encFlex_q ix)]

theorem encChannel_q (ix : Bytes → Nat) (c : Channel) : encChannel ix (qChannel c) = encChannel ix c := by
  simp [encChannel, qChannel, flat_map_q _ _ _ (encEvent_q ix)]

theorem encActor_q (ix : Bytes → Nat) (a : Actor) : encActor ix (qActor a) = encActor ix a := by
  simp [encActor, qActor, flat_map_q _ _ _ (encChannel_q ix)]

theorem encScene_q (ix : Bytes → Nat) (s : Scene) : encScene ix (quantScene s) = encScene ix s := by
  simp [encScene, quantScene, flat_map_q _ _ _ (encEvent_q ix), flat_map_q _ _ _ (encActor_q ix), encRamp_q]


/-! ## the projection is idempotent -/

theorem qv_qv (v : QVal) : qv (qv v) = qv v := by
  have := qv_idem v
  simp only [qv] at this ⊢
  rw [this]

theorem qv4096_qv4096 (v : QVal) : qv4096 (qv4096 v) = qv4096 v := by
  have := qv4096_idem v
  simp only [qv4096] at this ⊢
  rw [this]

theorem map_q_idem {α : Type} (q : α → α) (l : List α) (h : ∀ x, q (q x) = q x) :
    (l.map q).map q = l.map q := by
  simp [List.map_map, Function.comp_def, h]

theorem qRampSample_idem (s : RampSample) : qRampSample (qRampSample s) = qRampSample s := by
  unfold qRampSample
  dsimp only
  rw [qv_qv]
theorem qFlexSample_idem (s : FlexSample) : qFlexSample (qFlexSample s) = qFlexSample s := by
  unfold qFlexSample
  dsimp only
  rw [qv_qv]
theorem qTag_idem (t : Tag) : qTag (qTag t) = qTag t := by
  unfold qTag
  dsimp only
  rw [qv_qv]
theorem qAbsTag_idem (t : Tag) : qAbsTag (qAbsTag t) = qAbsTag t := by
  unfold qAbsTag
  dsimp only
  rw [qv4096_qv4096]

theorem qFlex_idem (f : Flex) : qFlex (qFlex f) = qFlex f := by
  obtain ⟨name, active, mn, mx, mag, dir⟩ := f
  cases dir <;> simp [qFlex, map_q_idem _ _ qFlexSample_idem]

theorem qExtra_idem (x : Extra) : qExtra (qExtra x) = qExtra x := by
  cases x with
  | speak cc tok a b c => cases h : (cc != ccDisabled) <;> simp [qExtra, h]
  | _ => rfl

theorem qEvent_idem (e : Event) : qEvent (qEvent e) = qEvent e := by
  obtain ⟨extra, name, start, stop, p1, p2, p3, ramp, flags, dist, rel, timing, absP, absS, tn, tw, flex⟩ := e
  cases tn <;> cases tw <;>
    simp [qEvent, qExtra_idem, map_q_idem _ _ qRampSample_idem, map_q_idem _ _ qTag_idem,
      map_q_idem _ _ qAbsTag_idem, map_q_idem _ _ qFlex_idem]

theorem qChannel_idem (c : Channel) : qChannel (qChannel c) = qChannel c := by
  simp [qChannel, map_q_idem _ _ qEvent_idem]

theorem qActor_idem (a : Actor) : qActor (qActor a) = qActor a := by
  simp [qActor, map_q_idem _ _ qChannel_idem]

theorem quantScene_idem (s : Scene) : quantScene (quantScene s) = quantScene s := by
  simp [quantScene, map_q_idem _ _ qEvent_idem, map_q_idem _ _ qActor_idem, map_q_idem _ _ qRampSample_idem]

/-! ## the pool: indices handed out while it grows are the indices in the final pool -/

/-- `add_to_pool` called on `ss` in order, starting from pool `p`: the indices it returns, and
the pool afterwards. -/
def threadIdx (p : List Bytes) : List Bytes → List Nat × List Bytes
  | [] => ([], p)
  | s :: ss => ((findOrInsert p s).2 :: (threadIdx (findOrInsert p s).1 ss).1,
                (threadIdx (findOrInsert p s).1 ss).2)

theorem indexOf?_append_of_some {s : Bytes} {p : List Bytes} {i : Nat} (q : List Bytes)
    (h : indexOf? s p = some i) : indexOf? s (p ++ q) = some i := by
  induction p generalizing i with
  | nil => simp [indexOf?] at h
  | cons x xs ih =>
    simp only [List.cons_append, indexOf?] at h ⊢
    by_cases hx : x = s
    · simpa [hx] using h
    · simp only [hx, if_false] at h ⊢
      cases h2 : indexOf? s xs with
      | none => simp [h2] at h
      | some j => simp [h2] at h; simp [ih h2, h]

theorem indexOf?_snoc_new {s : Bytes} {p : List Bytes} (h : indexOf? s p = none) :
    indexOf? s (p ++ [s]) = some p.length := by
  induction p with
  | nil => simp [indexOf?]
  | cons x xs ih =>
    simp only [indexOf?] at h
    by_cases hx : x = s
    · simp [hx] at h
    · simp only [hx, if_false] at h
      cases h2 : indexOf? s xs with
      | some j => simp [h2] at h
      | none => simp [List.cons_append, indexOf?, hx, ih h2]

theorem addAll_prefix (p ss : List Bytes) : ∃ q, addAll p ss = p ++ q := by
  unfold addAll
  induction ss generalizing p with
  | nil => exact ⟨[], by simp⟩
  | cons s ss ih =>
    simp only [List.foldl_cons]
    obtain ⟨q, hq⟩ := ih (findOrInsert p s).1
    rw [hq]
    unfold findOrInsert
    cases indexOf? s p with
    | some i => exact ⟨q, rfl⟩
    | none => exact ⟨[s] ++ q, by simp⟩

theorem addAll_cons (p : List Bytes) (s : Bytes) (ss : List Bytes) :
    addAll p (s :: ss) = addAll (findOrInsert p s).1 ss := rfl

theorem threadIdx_spec (p ss : List Bytes) :
    (threadIdx p ss).2 = addAll p ss ∧ (threadIdx p ss).1 = ss.map (poolIndex (addAll p ss)) := by
  induction ss generalizing p with
  | nil => exact ⟨rfl, rfl⟩
  | cons s ss ih =>
    obtain ⟨ih1, ih2⟩ := ih (findOrInsert p s).1
    refine ⟨by simp only [threadIdx, ih1, addAll_cons], ?_⟩
    simp only [threadIdx, List.map_cons, addAll_cons, ih2]
    congr 1
    obtain ⟨q, hq⟩ := addAll_prefix (findOrInsert p s).1 ss
    rw [hq]
    unfold findOrInsert poolIndex
    cases h : indexOf? s p with
    | some i => simp [indexOf?_append_of_some q h]
    | none =>
      have := indexOf?_append_of_some q (indexOf?_snoc_new h)
      simp only [List.append_assoc, List.singleton_append] at this
      simp [this]

/-- A string in the pool, with a pool of at most 32768 strings, satisfies the codec's hypothesis. -/
theorem strOK_of_mem (pool : List Bytes) (hl : pool.length ≤ 32768) (s : Bytes) (h : s ∈ pool) :
    strOK (poolIndex pool) pool s := by
  obtain ⟨h1, h2⟩ := poolIndex_spec pool s h
  exact ⟨by omega, h1⟩


/-! ## saving merged entries -/

theorem buildImageFrom_nil (v : Nat) (es : List Entry) : buildImageFrom [] v es = buildImage v es := rfl

theorem mapOpt_proj {α β γ : Type} {f : α → Option β} {p : β → γ} {q : α → γ}
    (hpq : ∀ a b, f a = some b → p b = q a) :
    ∀ (l : List α) (r : List β), mapOpt f l = some r → r.map p = l.map q := by
  intro l
  induction l with
  | nil => intro r h; simp [mapOpt] at h; subst h; rfl
  | cons a as ih =>
    intro r h
    simp only [mapOpt] at h
    cases hfa : f a with
    | none => simp [hfa] at h
    | some b =>
      simp only [hfa, Option.bind_some] at h
      cases hr : mapOpt f as with
      | none => simp [hr] at h
      | some bs =>
        simp only [hr, Option.bind_some, Option.some.injEq] at h
        subst h
        simp [hpq a b hfa, ih bs hr]

/-- When no single pool can be reused (entries of two different parsed images, or none lazy),
what is written is `buildImage` of one container entry per input entry — same CRC, summary and
sound list, scene re-encoded against the fresh pool. -/
theorem saveImage_fresh (version : Nat) (es : List MEntry) (b : Bytes)
    (hm : (poolMode es none).1 = none) (h : saveImage version es = some b) :
    ∃ entries : List Entry, b = buildImage version entries ∧
      entries.map (fun e => (e.crc, e.durMs, e.lastMs, e.sounds)) =
        es.map (fun e => (e.crc, e.durMs, e.lastMs, e.sounds)) := by
  unfold saveImage at h
  simp only [hm] at h
  cases h1 : mapOpt (fun e => (entryStrs (poolMode es none).2 e).map fun st => (e, st)) es with
  | none => simp [h1] at h
  | some ws =>
    simp only [h1, Option.bind_some] at h
    have hws : ws.map (fun x => (x.1.crc, x.1.durMs, x.1.lastMs, x.1.sounds)) =
        es.map (fun e => (e.crc, e.durMs, e.lastMs, e.sounds)) := by
      refine mapOpt_proj ?_ es ws h1
      intro a x hx
      cases hs : entryStrs (poolMode es none).2 a with
      | none => simp [hs] at hx
      | some st => simp [hs] at hx; subst hx; rfl
    cases h2 : mapOpt (fun x : MEntry × List Bytes =>
        (entryRaw (poolMode es none).2 (poolIndex (ws.foldl (fun p x => addAll (addAll p x.1.sounds) x.2) [])) x.1).map
          fun raw => ({ crc := x.1.crc, durMs := x.1.durMs, lastMs := x.1.lastMs, sounds := x.1.sounds,
                        strs := x.2, raw := raw, comp := x.1.comp } : Entry)) ws with
    | none => simp [h2] at h
    | some entries =>
      simp only [h2, Option.map_some, Option.some.injEq] at h
      refine ⟨entries, by rw [← h, buildImageFrom_nil], ?_⟩
      rw [← hws]
      refine mapOpt_proj ?_ ws entries h2
      intro x e hx
      cases hr : entryRaw (poolMode es none).2
          (poolIndex (ws.foldl (fun p x => addAll (addAll p x.1.sounds) x.2) [])) x.1 with
      | none => simp [hr] at hx
      | some raw => simp [hr] at hx; subst hx; rfl

end C20.Bvcd
