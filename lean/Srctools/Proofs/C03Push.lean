import Srctools.Model.C03Push
/-! Laws of `BaseTokenizer`'s push-back layer and: a fresh tokenizer drained through `__call__`
yields exactly `TokC.run`. -/
namespace TokC
open Tok

namespace PB
variable {σ τ ε : Type}

theorem call_pushBack (get : σ → Except ε (τ × σ)) (p : PB σ τ) (t : τ) :
    (p.pushBack t).call get = .ok (t, p) := by
  cases p; rfl

theorem call_fresh (get : σ → Except ε (τ × σ)) (s : σ) :
    (PB.fresh s : PB σ τ).call get =
      match get s with
      | .ok (t, s') => .ok (t, PB.fresh s')
      | .error e => .error e := by
  simp only [call, fresh]
  cases get s with
  | error e => rfl
  | ok r => rfl

/-- `peek` returns what `call` returns; after it, `call` returns the same token again and leaves
the tokenizer exactly where a single `call` would have. -/
theorem peek_then_call (get : σ → Except ε (τ × σ)) (p : PB σ τ) :
    match p.call get with
    | .ok (t, p') => p.peek get = .ok (t, p'.pushBack t) ∧ (p'.pushBack t).call get = .ok (t, p')
    | .error e => p.peek get = .error e := by
  unfold peek
  cases h : p.call get with
  | error e => simp
  | ok r => obtain ⟨t, p'⟩ := r; exact ⟨rfl, call_pushBack get p' t⟩

end PB

/-- Draining a tokenizer whose push-back stack is empty is the model's token loop. -/
theorem pbRunAux_eq (T : Tables) (o : Opts) (fold : Char → List Char) (n : Nat) (st : CSt)
    (acc : List Obs) :
    pbRunAux T o fold n { stack := [], src := st } acc = runAux T o fold n st acc := by
  induction n generalizing st acc with
  | zero => rfl
  | succ n ih =>
    rw [pbRunAux, runAux]
    simp only [PB.call, tokGet]
    cases nextToken T o fold (st.src.view.length + 1) st with
    | err e l s => rfl
    | tok k v st' =>
      simp only
      split
      · rfl
      · exact ih st' _

theorem pbRun_eq (T : Tables) (o : Opts) (fold : Char → List Char) (s : Src) :
    pbRun T o fold s = run T o fold s :=
  pbRunAux_eq T o fold _ _ _

end TokC
