import Srctools.Proofs.C15File
/-!
# C15 — `compute_mipmaps` preserves everything the file layout depends on, and what it computes
-/
namespace C15

theorem lowStep_dims (frames : List (Key × FrameM)) (side filt : Nat) (low low' : FrameM) (m : Nat)
    (h : lowStep frames side filt low m = .ok low') :
    low'.w = low.w ∧ low'.h = low.h ∧ low'.fileData = low.fileData := by
  unfold lowStep at h
  cases hl : lookupFrame frames (0, side, m) with
  | none => simp [hl, throw, throwThe, MonadExceptOf.throw] at h
  | some fr =>
    simp only [hl, bind, Except.bind, pure, Except.pure] at h
    split at h
    · split at h
      · simp [throw, throwThe, MonadExceptOf.throw] at h
      · split at h
        · split at h
          · simp only [Except.ok.injEq] at h; subst h; exact ⟨rfl, rfl, rfl⟩
          · simp [throw, throwThe, MonadExceptOf.throw] at h
        · simp only [Except.ok.injEq] at h; subst h; exact ⟨rfl, rfl, rfl⟩
    · simp only [Except.ok.injEq] at h; subst h; exact ⟨rfl, rfl, rfl⟩

theorem foldlM_lowStep_dims (frames : List (Key × FrameM)) (side filt : Nat) :
    ∀ (ms : List Nat) (low low' : FrameM), ms.foldlM (lowStep frames side filt) low = .ok low' →
      low'.w = low.w ∧ low'.h = low.h ∧ low'.fileData = low.fileData := by
  intro ms
  induction ms with
  | nil => intro low low' h; simp [pure, Except.pure] at h; subst h; exact ⟨rfl, rfl, rfl⟩
  | cons m ms ih =>
    intro low low' h
    rw [List.foldlM_cons] at h
    cases hs : lowStep frames side filt low m with
    | error e => simp [hs, bind, Except.bind] at h
    | ok l1 =>
      simp only [hs, bind, Except.bind] at h
      have a := lowStep_dims _ _ _ _ _ _ hs
      have b := ih l1 low' h
      exact ⟨b.1.trans a.1, b.2.1.trans a.2.1, b.2.2.trans a.2.2⟩

theorem computeLow_dims (v : Vtf) (frames : List (Key × FrameM)) (filt : Nat) (low' : FrameM)
    (h : computeLow v frames filt = .ok low') :
    low'.w = v.low.w ∧ low'.h = v.low.h ∧ low'.fileData = v.low.fileData := by
  unfold computeLow at h
  split at h
  · exact foldlM_lowStep_dims _ _ _ _ _ _ h
  · simp only [pure, Except.pure, Except.ok.injEq] at h; subst h; exact ⟨rfl, rfl, rfl⟩

/-- what `compute_mipmaps` may do to one frame: same size, and a lazy frame still loads its file
content afterwards. -/
def SameFrame (fr fr' : FrameM) : Prop :=
  fr'.w = fr.w ∧ fr'.h = fr.h ∧ ∀ d, fr.fileData = some d → fr'.load.data = some d

theorem SameFrame.refl (fr : FrameM) : SameFrame fr fr :=
  ⟨rfl, rfl, fun d hd => by simp [FrameM.load, hd]⟩

theorem sameFrame_load (fr : FrameM) : SameFrame fr fr.load := by
  refine ⟨(load_dims fr).1, (load_dims fr).2, fun d hd => ?_⟩
  simp [FrameM.load, hd]

theorem sameFrame_setData (fr : FrameM) (x : Option (List Nat)) : SameFrame fr { fr with data := x } :=
  ⟨rfl, rfl, fun d hd => by simp [FrameM.load, hd]⟩

theorem levelAfter_same (fr : List (Key × FrameM)) (filt f d : Nat) :
    ∀ (m : Nat) (out : FrameM), levelAfter fr filt f d m = .ok out →
      ∃ fr0, lookupFrame fr (f, d, m) = some fr0 ∧ SameFrame fr0 out := by
  intro m
  cases m with
  | zero =>
    intro out h
    unfold levelAfter at h
    cases hl : lookupFrame fr (f, d, 0) with
    | none => simp [hl, throw, throwThe, MonadExceptOf.throw] at h
    | some f0 =>
      simp only [hl, pure, Except.pure, Except.ok.injEq] at h
      subst h
      exact ⟨f0, rfl, sameFrame_load f0⟩
  | succ m =>
    intro out h
    unfold levelAfter at h
    cases hp : levelAfter fr filt f d m with
    | error e => simp [hp, throw, throwThe, MonadExceptOf.throw] at h
    | ok p =>
      simp only [hp] at h
      cases hl : lookupFrame fr (f, d, m + 1) with
      | none => simp [hl, throw, throwThe, MonadExceptOf.throw] at h
      | some cur =>
        simp only [hl] at h
        split at h
        · simp only [pure, Except.pure, Except.ok.injEq] at h; subst h
          exact ⟨cur, rfl, SameFrame.refl cur⟩
        · split at h
          · simp [throw, throwThe, MonadExceptOf.throw] at h
          · split at h
            · simp only [pure, Except.pure, Except.ok.injEq] at h; subst h
              exact ⟨cur, rfl, sameFrame_setData cur _⟩
            · simp [throw, throwThe, MonadExceptOf.throw] at h

/-- lookups in a list obtained by a key-preserving element-wise relation. -/
theorem lookup_forall2 (R : Key → FrameM → FrameM → Prop) :
    ∀ (l l' : List (Key × FrameM)),
      List.Forall₂ (fun a b => b.1 = a.1 ∧ R a.1 a.2 b.2) l l' →
      ∀ k, (lookupFrame l k = none ∧ lookupFrame l' k = none) ∨
        ∃ fr fr', lookupFrame l k = some fr ∧ lookupFrame l' k = some fr' ∧ R k fr fr' := by
  intro l l' h
  induction h with
  | nil => intro k; left; exact ⟨rfl, rfl⟩
  | @cons a b l1 l2 hab _ ih =>
    intro k
    obtain ⟨ka, fa⟩ := a
    obtain ⟨kb, fb⟩ := b
    simp only at hab
    obtain ⟨rfl, hr⟩ := hab
    by_cases hk : kb = k
    · subst hk
      right
      exact ⟨fa, fb, by simp [lookupFrame], by simp [lookupFrame], hr⟩
    · have hne : (kb == k) = false := by simpa using hk
      rcases ih k with ⟨h1, h2⟩ | ⟨fr, fr', h1, h2, h3⟩
      · left
        simp only [lookupFrame, List.find?_cons, hne] at h1 h2 ⊢
        exact ⟨h1, h2⟩
      · right
        refine ⟨fr, fr', ?_, ?_, h3⟩
        · simpa [lookupFrame, List.find?_cons, hne] using h1
        · simpa [lookupFrame, List.find?_cons, hne] using h2

/-- after `compute_mipmaps` every key still has a frame of the same size (or still none), and a
lazy frame still loads its file content. -/
theorem computeMips_lookup (v : Vtf) (filt : Nat) (frames' : List (Key × FrameM))
    (h : computeMips v filt = .ok frames') (k : Key) :
    (lookupFrame v.frames k = none ∧ lookupFrame frames' k = none) ∨
      ∃ fr fr', lookupFrame v.frames k = some fr ∧ lookupFrame frames' k = some fr' ∧
        SameFrame fr fr' := by
  unfold computeMips at h
  split at h
  · have hF := mapM_ok_forall2 _ _ _ h
    have hF2 : List.Forall₂ (fun (a b : Key × FrameM) => b.1 = a.1 ∧
        (fun k0 fr fr' => SameFrame fr fr' ∨
          ∃ fr0, lookupFrame v.frames k0 = some fr0 ∧ SameFrame fr0 fr') a.1 a.2 b.2)
        v.frames frames' := by
      refine forall2_imp ?_ hF
      intro a b hab
      obtain ⟨ka, fa⟩ := a
      unfold computeOne at hab
      simp only at hab
      split at hab
      · cases hlv : levelAfter v.frames filt ka.1 ka.2.1 ka.2.2 with
        | error e => simp [hlv] at hab
        | ok fr' =>
          simp only [hlv, Except.ok.injEq] at hab
          subst hab
          obtain ⟨fr0, h0, hs⟩ := levelAfter_same _ _ _ _ _ _ hlv
          exact ⟨rfl, .inr ⟨fr0, h0, hs⟩⟩
      · simp only [Except.ok.injEq] at hab
        subst hab
        exact ⟨rfl, .inl (SameFrame.refl fa)⟩
    rcases lookup_forall2 (fun k0 fr fr' => SameFrame fr fr' ∨
          ∃ fr0, lookupFrame v.frames k0 = some fr0 ∧ SameFrame fr0 fr') v.frames frames' hF2 k with hnone | ⟨fr, fr', h1, h2, hs | ⟨fr0, h0, hs⟩⟩
    · left; exact hnone
    · right; exact ⟨fr, fr', h1, h2, hs⟩
    · right
      rw [h1] at h0
      cases h0
      exact ⟨fr, fr', h1, h2, hs⟩
  · simp at h

/-- `compute_mipmaps` only touches the frames' and the thumbnail's content. -/
theorem applyCompute_shape (v v' : Vtf) (filt : Nat) (h : applyCompute v filt = .ok v') :
    ∃ frames' low', v' = { v with frames := frames', low := low' } ∧
      computeMips v filt = .ok frames' ∧ computeLow v frames' filt = .ok low' ∧
      low'.w = v.low.w ∧ low'.h = v.low.h ∧ low'.fileData = v.low.fileData := by
  unfold applyCompute at h
  cases hm : computeMips v filt with
  | error e => simp [hm] at h
  | ok frames' =>
    cases hl : computeLow v frames' filt with
    | error e => simp [hm, hl] at h
    | ok low' =>
      simp only [hm, hl, Except.ok.injEq] at h
      have d := computeLow_dims v frames' filt low' hl
      exact ⟨frames', low', h.symm, rfl, hl, d.1, d.2.1, d.2.2⟩

theorem frameFor_same (v : Vtf) (frames' : List (Key × FrameM)) (low' : FrameM) (filt : Nat)
    (hm : computeMips v filt = .ok frames') (k : Key) :
    (∃ e, frameFor v k = .error e ∧ frameFor { v with frames := frames', low := low' } k = .error e) ∨
    ∃ fr fr', frameFor v k = .ok fr ∧ frameFor { v with frames := frames', low := low' } k = .ok fr' ∧
      SameFrame fr fr' := by
  rcases computeMips_lookup v filt frames' hm k with ⟨h1, h2⟩ | ⟨fr, fr', h1, h2, hs⟩
  · unfold frameFor
    simp only [h1, h2]
    split
    · right; exact ⟨_, _, rfl, rfl, SameFrame.refl _⟩
    · left; exact ⟨_, rfl, rfl⟩
  · right
    refine ⟨fr, fr', ?_, ?_, hs⟩
    · simp [frameFor, h1, pure, Except.pure]
    · simp [frameFor, h2, pure, Except.pure]

theorem saveWF_applyCompute (v v' : Vtf) (filt minor sheetVer : Nat) (h : applyCompute v filt = .ok v')
    (hwf : saveWF v minor sheetVer = true) :
    saveWF v' minor sheetVer = true ∧ viewOf v' minor sheetVer (lowLen v') = viewOf v minor sheetVer (lowLen v) := by
  obtain ⟨frames', low', rfl, hm, _, hw, hh, _⟩ := applyCompute_shape v v' filt h
  have hlen : lowLen { v with frames := frames', low := low' } = lowLen v := by simp [lowLen, hw, hh]
  have hfile : ∀ n, fileWF { v with frames := frames', low := low' } minor sheetVer n = fileWF v minor sheetVer n := by
    intro n
    simp [fileWF, hdrWF, resPartWF, lowOff, headerSize, dataBlocks, sheetBlock, resCount, hasSheetRes, hw, hh]
  refine ⟨?_, ?_⟩
  · simp only [saveWF, Bool.and_eq_true, decide_eq_true_eq] at hwf ⊢
    obtain ⟨⟨⟨hfw, hfr⟩, hd1⟩, hd2⟩ := hwf
    refine ⟨⟨⟨by rw [hlen, hfile]; exact hfw, ?_⟩, hd1⟩, hd2⟩
    simp only [framesWF, List.all_eq_true] at hfr ⊢
    intro k hk
    have := hfr k hk
    rcases computeMips_lookup v filt frames' hm k with ⟨h1, h2⟩ | ⟨fr, fr', h1, h2, hs⟩
    · simp [h2]
    · simp only [h1] at this
      simp only [h2, hs.1, hs.2.1]
      exact this
  · simp [viewOf, viewDepth, hlen, lowOff, headerSize, dataBlocks, sheetBlock, resCount, hasSheetRes, hw, hh]

/-! ## what `compute_mipmaps` generates -/

/-- level `k` obtained from level-0 data `d0` of a `w × h` image by `k` successive `scale_down`s. -/
def iterScale (filt w h : Nat) (d0 : List Nat) : Nat → List Nat
  | 0 => d0
  | k + 1 => (scaleDown filt (w >>> k) (h >>> k) (w >>> (k + 1)) (h >>> (k + 1)) (iterScale filt w h d0 k)).getD []

theorem scaleDown_isSome (filt sw sh w h : Nat) (src : List Nat) (hf : filt ≤ 4) :
    ∃ out, scaleDown filt sw sh w h src = some out := by
  unfold scaleDown
  by_cases h4 : filt < 4
  · rw [if_pos h4]; exact ⟨_, rfl⟩
  · have : filt = 4 := by omega
    rw [if_neg h4, if_pos this]; exact ⟨_, rfl⟩

theorem levelAfter_generated (fr : List (Key × FrameM)) (filt f d a b : Nat) (d0 : List Nat)
    (hf : filt ≤ 4) :
    ∀ k, k ≤ min a b →
      (∀ m, m ≤ k → lookupFrame fr (f, d, m)
        = some ⟨2 ^ a >>> m, 2 ^ b >>> m, if m = 0 then some d0 else none, none⟩) →
      levelAfter fr filt f d k
        = .ok ⟨2 ^ a >>> k, 2 ^ b >>> k, some (iterScale filt (2 ^ a) (2 ^ b) d0 k), none⟩ := by
  intro k
  induction k with
  | zero =>
    intro _ hl
    have := hl 0 (Nat.le_refl 0)
    simp only [if_true] at this
    simp [levelAfter, this, FrameM.load, iterScale, pure, Except.pure]
  | succ k ih =>
    intro hk hl
    have hprev := ih (by omega) (fun m hm => hl m (by omega))
    have hcur := hl (k + 1) (Nat.le_refl _)
    simp only [Nat.succ_ne_zero, if_false] at hcur
    have ha : k + 1 ≤ a := by omega
    have hb : k + 1 ≤ b := by omega
    have hwa : 2 ^ a >>> k = 2 * (2 ^ a >>> (k + 1)) := by
      rw [shiftRight_two_pow _ _ (by omega), shiftRight_two_pow _ _ ha,
        show a - k = (a - (k + 1)) + 1 by omega, Nat.pow_succ]; ring
    have hwb : 2 ^ b >>> k = 2 * (2 ^ b >>> (k + 1)) := by
      rw [shiftRight_two_pow _ _ (by omega), shiftRight_two_pow _ _ hb,
        show b - k = (b - (k + 1)) + 1 by omega, Nat.pow_succ]; ring
    have hok : rescaleOK (2 ^ a >>> (k + 1)) (2 ^ b >>> (k + 1)) (2 ^ a >>> k) (2 ^ b >>> k) = true := by
      simp [rescaleOK, hwa, hwb]
    obtain ⟨out, hout⟩ := scaleDown_isSome filt (2 ^ a >>> k) (2 ^ b >>> k) (2 ^ a >>> (k + 1))
      (2 ^ b >>> (k + 1)) (iterScale filt (2 ^ a) (2 ^ b) d0 k) hf
    rw [levelAfter, hprev]
    simp only [hcur, hok, Bool.not_true, Bool.false_eq_true, if_false, Option.getD_some, hout,
      pure, Except.pure, iterScale]

/-- a small concrete object for non-vacuity: 4×2, BGRA5551 image, BGRA8888 thumbnail (16×16), two
frames, a byte resource, an inline resource, one sheet sequence; level 0 filled, level 1 cleared. -/
def exampleVtf : Vtf :=
  { width := 4, height := 2, depth := 1, verMinor := 4, flags := 0x2000, frameCount := 2, firstFrame := 1,
    refl := [0, 0, 128, 63, 0, 0, 0, 64, 0, 0, 64, 64], bump := [0, 0, 128, 63], fmt := 21, lowFmt := 12,
    mipCount := 1, low := ⟨16, 16, none, none⟩,
    frames := [((0, 0, 0), ⟨4, 2, some ((List.range 32).map (· * 8)), none⟩), ((0, 0, 1), ⟨2, 1, none, none⟩),
               ((1, 0, 0), ⟨4, 2, none, none⟩), ((1, 0, 1), ⟨2, 1, none, none⟩)],
    res := [⟨[67, 82, 67], 0, true, 0, [1, 2, 3, 4, 5]⟩, ⟨[76, 79, 68], 2, false, 0x01020304, []⟩],
    sheet := [⟨3, true, [0, 0, 128, 63], [⟨[0, 0, 0, 63], (List.range 64)⟩]⟩] }

end C15
