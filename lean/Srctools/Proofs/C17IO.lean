import Srctools.Model.C17IO
import Srctools.Proofs.C17Names
/-! # C17 — I/O proxy rewriting and `func_instance_parms` (core only) -/
namespace C17
variable [CharFold]

/-! ## fire counts -/

omit [CharFold] in
theorem combineTimes_spec (a b : Int) :
    (b < 0 → combineTimes a b = a) ∧ (0 ≤ b → a < 0 → combineTimes a b = b) ∧
    (0 ≤ a → 0 ≤ b → combineTimes a b = min a b) := by
  unfold combineTimes
  refine ⟨fun h => by simp [h], fun hb ha => ?_, fun ha hb => ?_⟩
  · have : ¬ b < 0 := by omega
    simp [this, ha]
  · have h1 : ¬ b < 0 := by omega
    have h2 : ¬ a < 0 := by omega
    simp [h1, h2]

/-! ## connections into the instance -/

theorem reroute_untouched (I : IOInst) (F : IOFile) (o : Out)
    (h : o.instIn = none ∨ foldStr o.target ≠ foldStr I.name ∨
         ∀ n, o.instIn = some n → lookupLast F.proxyInputs (foldStr n, foldStr o.input) = none) :
    reroute I F o = o := by
  unfold reroute
  cases hi : o.instIn with
  | none => rfl
  | some n =>
    simp only
    rcases h with h | h | h
    · rw [hi] at h; cases h
    · simp [h]
    · split
      · rfl
      · rw [h n hi]

theorem reroute_hit (I : IOInst) (F : IOFile) (o p : Out) (n : List Char)
    (hi : o.instIn = some n) (ht : foldStr o.target = foldStr I.name)
    (hp : lookupLast F.proxyInputs (foldStr n, foldStr o.input) = some p) :
    reroute I F o =
      { o with target := I.rename p.target, input := p.input, instIn := none,
               params := if p.params.isEmpty then o.params else p.params,
               times := combineTimes o.times p.times,
               delay := o.delay + p.delay,
               commaSep := o.commaSep && p.commaSep } := by
  unfold reroute
  simp [hi, ht, hp]

/-! ## connections inside the instance -/

theorem mem_collapseOuts (I : IOInst) (outs : List Out) (o' : Out) :
    o' ∈ collapseOuts I outs ↔ ∃ o ∈ outs, o' = { o with target := I.rename o.target } := by
  simp only [collapseOuts, List.mem_map]
  constructor
  · rintro ⟨o, ho, rfl⟩; exact ⟨o, ho, rfl⟩
  · rintro ⟨o, ho, rfl⟩; exact ⟨o, ho, rfl⟩

/-! ## connections leaving the instance -/

theorem mem_instOutputs (I : IOInst) (F : IOFile) (i : Nat) (c : Out)
    (h : (i, c) ∈ instOutputs I F) :
    ∃ o ∈ I.outs, ∃ n p, o.instOut = some n ∧
      lookupLast F.proxyOutputs (foldStr n, foldStr o.output) = some (i, p) ∧ c = Out.combine p o := by
  simp only [instOutputs, List.mem_filterMap] at h
  obtain ⟨o, ho, hc⟩ := h
  refine ⟨o, ho, ?_⟩
  cases hn : o.instOut with
  | none => simp [hn] at hc
  | some n =>
    simp only [hn] at hc
    cases hl : lookupLast F.proxyOutputs (foldStr n, foldStr o.output) with
    | none => simp [hl] at hc
    | some ip =>
      obtain ⟨j, p⟩ := ip
      simp only [hl, Option.some.injEq, Prod.mk.injEq] at hc
      exact ⟨n, p, rfl, by rw [hl, hc.1], hc.2.symm⟩

/-! ## what `InstanceFile.parse` leaves in the file -/

theorem parseIO_no_proxy (ents : List IOEnt) : ∀ e ∈ (parseIO ents).ents, e.isProxy = false := by
  intro e he
  simp only [parseIO, List.mem_map, List.mem_filter] at he
  obtain ⟨e0, ⟨_, hp⟩, rfl⟩ := he
  simpa using hp

theorem parseIO_no_relay (ents : List IOEnt) :
    ∀ e ∈ (parseIO ents).ents, ∀ o ∈ e.outs,
      toProxy ((ents.filter (·.isProxy)).map (fun p => foldStr p.name)) o = false := by
  intro e he o ho
  simp only [parseIO, List.mem_map, List.mem_filter] at he
  obtain ⟨e0, _, rfl⟩ := he
  simp only [List.mem_filter] at ho
  simpa using ho.2

theorem parseIO_inputs_from_proxies (ents : List IOEnt) (k : Key2) (p : Out)
    (h : (k, p) ∈ (parseIO ents).proxyInputs) :
    ∃ e ∈ ents, e.isProxy = true ∧ ∃ o ∈ e.outs, isOnProxyRelay o = true ∧
      k = (foldStr o.target, foldStr o.input) ∧ p = { o with output := [] } := by
  simp only [parseIO, List.mem_flatMap, List.mem_map, List.mem_filter] at h
  obtain ⟨e, ⟨he, hpx⟩, o, ⟨ho, hr⟩, heq⟩ := h
  simp only [Prod.mk.injEq] at heq
  exact ⟨e, he, hpx, o, ho, hr, heq.1.symm, heq.2.symm⟩

/-! ## `func_instance_parms` -/

omit [CharFold] in
theorem breakSpace_noSpace (a rest : List Char) (h : ' ' ∉ a) :
    breakSpace (a ++ ' ' :: rest) = (a, some rest) := by
  induction a with
  | nil => simp [breakSpace]
  | cons c cs ih =>
    have hc : c ≠ ' ' := fun e => h (by simp [e])
    have hcs : ' ' ∉ cs := fun e => h (by simp [e])
    simp [breakSpace, hc, ih hcs]

omit [CharFold] in
theorem splitSpaces_succ (n : Nat) (a rest : List Char) (h : ' ' ∉ a) :
    splitSpaces (n + 1) (a ++ ' ' :: rest) = a :: splitSpaces n rest := by
  rw [splitSpaces, breakSpace_noSpace a rest h]

omit [CharFold] in
/-- `name type default…`: with `split(' ', 2)` the default is everything after the second space. -/
theorem parseParam_three (name ty dflt : List Char) (hn : ' ' ∉ name) (ht : ' ' ∉ ty) :
    parseParam 2 (name ++ ' ' :: (ty ++ ' ' :: dflt)) = ⟨name, some ty, dflt⟩ := by
  have e : splitSpaces 2 (name ++ ' ' :: (ty ++ ' ' :: dflt)) = [name, ty, dflt] := by
    rw [splitSpaces_succ 1 _ _ hn, splitSpaces_succ 0 _ _ ht, splitSpaces]
  simp [parseParam, e]

/-! ## automatic instance names -/

omit [CharFold] in
theorem autoName_inj {a b : Nat} (h : autoName a = autoName b) : a = b := by
  have h' := List.append_cancel_left h
  have := congrArg (fun l => Nat.ofDigitChars 10 l 0) h'
  simpa [Nat.ofDigitChars_toDigits (by decide : 1 < 10) (by decide : 10 ≤ 10)] using this

omit [CharFold] in
theorem autoName_plain (n : Nat) : passThrough (autoName n) = false := rfl

omit [CharFold] in
theorem autoName_ne_nil (n : Nat) : (autoName n).isEmpty = false := rfl

omit [CharFold] in
theorem assignAuto_length : ∀ (c : Nat) (names : List (List Char)),
    (assignAuto c names).length = names.length
  | _, [] => rfl
  | c, nm :: rest => by
    simp only [assignAuto]; split <;> simp [assignAuto_length]

omit [CharFold] in
/-- Named instances keep their name; an unnamed one gets `InstanceAuto<k>` with `k` = (number of
unnamed ones before it) + 1 — so no effective name is empty. -/
theorem assignAuto_getElem : ∀ (c : Nat) (names : List (List Char)) (i : Nat) (h : i < names.length),
    (assignAuto c names)[i]'(by rw [assignAuto_length]; exact h) =
      if names[i].isEmpty then autoName (c + ((names.take i).filter (·.isEmpty)).length + 1) else names[i]
  | c, nm :: rest, 0, _ => by
    simp only [assignAuto]; split <;> simp [*]
  | c, nm :: rest, i + 1, h => by
    have h' : i < rest.length := by simpa using h
    simp only [assignAuto]
    split
    · rename_i he
      simp only [List.getElem_cons_succ, List.take_succ_cons, List.filter_cons, he, if_true,
        List.length_cons]
      rw [assignAuto_getElem (c + 1) rest i h']
      split <;> simp [Nat.add_assoc, Nat.add_comm 1]
    · rename_i he
      simp only [List.getElem_cons_succ, List.take_succ_cons, List.filter_cons, he,
        Bool.false_eq_true, if_false]
      exact assignAuto_getElem c rest i h'

omit [CharFold] in
/-- Two different unnamed instances of one `collapse_all` call get different names. -/
theorem assignAuto_distinct (names : List (List Char)) (i j : Nat) (hi : i < names.length)
    (hj : j < names.length) (hij : i < j) (ei : names[i].isEmpty = true) (ej : names[j].isEmpty = true) :
    (assignAuto 0 names)[i]'(by rw [assignAuto_length]; exact hi) ≠
      (assignAuto 0 names)[j]'(by rw [assignAuto_length]; exact hj) := by
  rw [assignAuto_getElem 0 names i hi, assignAuto_getElem 0 names j hj]
  simp only [ei, ej, if_true]
  intro h
  have := autoName_inj h
  -- the count of unnamed instances before j includes i itself
  have hlt : ((names.take i).filter (·.isEmpty)).length < ((names.take j).filter (·.isEmpty)).length := by
    have hsplit : names.take j = names.take i ++ (names.drop i).take (j - i) := by
      rw [← List.take_add]; congr 1; omega
    rw [hsplit, List.filter_append, List.length_append]
    obtain ⟨k, hk⟩ : ∃ k, j - i = k + 1 := ⟨j - i - 1, by omega⟩
    have : (names.drop i).take (j - i) = names[i] :: ((names.drop (i + 1)).take k) := by
      rw [List.drop_eq_getElem_cons hi, hk, List.take_succ_cons]
    rw [this, List.filter_cons]
    simp [ei]
  omega

/-! ## supplied / unsupplied variables -/

omit [CharFold] in
theorem lookupFix_mem {t : FixTable} {k v : List Char} (h : lookupFix t k = some v) :
    k ∈ t.map (·.1) := by
  simp only [lookupFix, Option.map_eq_some_iff] at h
  obtain ⟨p, hp, _⟩ := h
  have hm := List.mem_of_find?_eq_some hp
  have hk := List.find?_some hp
  simp only [beq_iff_eq] at hk
  exact List.mem_map.mpr ⟨p, hm, hk⟩

theorem identLen_le (rest : List Char) : identLen rest ≤ rest.length := by
  cases rest with
  | nil => simp [identLen]
  | cons c cs =>
    simp only [identLen]
    split
    · have := (List.takeWhile_sublist isIdCont (l := cs)).length_le
      simp only [List.length_cons]; omega
    · simp

/-- A supplied variable wins: the longest defined name after the `$` is replaced by the value the
instance supplies for it. -/
theorem substitute_supplied (t : FixTable) (d rest k v : List Char)
    (hm : firstMatch (alternatives t) rest = some k) (hv : lookupFix t k = some v) :
    substitute t d ('$' :: rest) = v ++ substitute t d (rest.drop k.length) := by
  have : matchVar t d rest = some (k.length, v) := by simp [matchVar, hm, hv]
  exact substitute_var t d rest v k.length this

/-- An unsupplied variable (no defined name matches, an identifier of `n+1` characters follows)
is replaced by the default handed to `substitute` — `''` in `collapse_one` — whatever a
`func_instance_parms` entity declares: the collapse takes no declaration. -/
theorem substitute_unsupplied (t : FixTable) (ht : t.isEmpty = false) (d rest : List Char) (n : Nat)
    (hm : firstMatch (alternatives t) rest = none) (hid : identLen rest = n + 1) :
    substitute t d ('$' :: rest) = d ++ substitute t d (rest.drop (n + 1)) := by
  have hnone : lookupFix t ((rest.take (n + 1)).map CharFold.lw) = none := by
    cases hl : lookupFix t ((rest.take (n + 1)).map CharFold.lw) with
    | none => rfl
    | some v =>
      exfalso
      have hk := lookupFix_mem hl
      simp only [alternatives, ht, Bool.false_eq_true, if_false] at hm
      have hno := firstMatch_none hm _ ((mem_sortKeys t _).mpr hk)
      have hle := identLen_le rest
      have hlen : ((rest.take (n + 1)).map CharFold.lw).length = n + 1 := by
        simp only [List.length_map, List.length_take]; omega
      have : matchesCI ((rest.take (n + 1)).map CharFold.lw) rest = true := by
        rw [matchesCI_iff]
        refine ⟨by omega, ?_⟩
        rw [hlen]
      rw [this] at hno; cases hno
  have : matchVar t d rest = some (n + 1, d) := by
    simp only [matchVar, hm, hid, hnone, Option.getD_none]
  exact substitute_var t d rest d (n + 1) this

end C17
