import Srctools.Proofs.C16KVSpec
/-!
# C16 (iv) — the keyvalue / IO line PARSER on the specification token sequences

`parseKV` / `parseIO` / `parseBody` (Model/C16KV.lean), run on `kvToks` / `ioToks` / `bodyToks`
(Proofs/C16KVSpec.lean), return the normalised records `normKV` / `normIO` / `normItem`.

* `parseNat?_natText` — `int(str(n)) = n`
* `RCL` + `RCL_string/_colon/_plusChain/_chain/_ls/_stop/_nl` — `_read_colon_list`, fuel-free
* `readTags_tags`, `kvHead_optTags` — `read_tags` on the written tag list
* `PA_flags`, `PA_choices`, `parseArray_list` — `_parse_colon_array`
* `parse_kv` (`parse_kv_plain/_choices/_spawnflags`, `parse_kv_ext`), `parse_io`, `parse_body(_run)`
* `parse_kv_spawnflags_desc_garbled` — the open finding `spawnflags-default-desc`
* hypotheses: `KvParseOK`, `IoParseOK`, `ItemParseOK` (all decidable); non-vacuity examples at the end.
Everything holds for `custom_syntax` on and off: the tags read back are `effTags c tags`.
-/
namespace C16.KV
open Tok C16

/-! ## digits round trip: `int(str(n)) = n` -/

/-- One step of the fold in `parseNat?`. -/
def digStep (acc : Option Nat) (c : Char) : Option Nat :=
  match acc with
  | none => none
  | some v => if '0' ≤ c ∧ c ≤ '9' then some (v * 10 + (c.toNat - 48)) else none

theorem parseNat?_eq (s : Str) : parseNat? s = if s.isEmpty then none else s.foldl digStep (some 0) := rfl

theorem digit_char : ∀ m, m < 10 →
    ('0' ≤ Char.ofNat (48 + m) ∧ Char.ofNat (48 + m) ≤ '9') ∧ (Char.ofNat (48 + m)).toNat - 48 = m := by
  decide

theorem digStep_digit (v m : Nat) (hm : m < 10) :
    digStep (some v) (Char.ofNat (48 + m)) = some (v * 10 + m) := by
  obtain ⟨h1, h2⟩ := digit_char m hm
  simp only [digStep, h1, and_self, if_true, h2]

theorem natDigitsAux_succ (fuel n : Nat) (acc : Str) :
    natDigitsAux (fuel + 1) n acc =
      if n < 10 then Char.ofNat (48 + n % 10) :: acc
      else natDigitsAux fuel (n / 10) (Char.ofNat (48 + n % 10) :: acc) := rfl

theorem natDigitsAux_fold : ∀ (fuel n : Nat) (acc : Str), n < fuel →
    (natDigitsAux fuel n acc).foldl digStep (some 0) = acc.foldl digStep (some n) := by
  intro fuel
  induction fuel with
  | zero => intro n acc h; omega
  | succ fuel ih =>
    intro n acc h
    rw [natDigitsAux_succ]
    by_cases h10 : n < 10
    · rw [if_pos h10, List.foldl_cons, digStep_digit 0 (n % 10) (Nat.mod_lt _ (by omega))]
      congr 2
      omega
    · rw [if_neg h10, ih (n / 10) _ (by omega), List.foldl_cons,
        digStep_digit (n / 10) (n % 10) (Nat.mod_lt _ (by omega))]
      congr 2
      omega

theorem natDigitsAux_ne_nil : ∀ (fuel n : Nat) (acc : Str), acc ≠ [] → natDigitsAux fuel n acc ≠ [] := by
  intro fuel
  induction fuel with
  | zero => intro n acc h; exact h
  | succ fuel ih =>
    intro n acc _
    rw [natDigitsAux_succ]
    split
    · exact List.cons_ne_nil _ _
    · exact ih _ _ (List.cons_ne_nil _ _)

theorem natText_ne_nil (n : Nat) : natText n ≠ [] := by
  unfold natText
  rw [natDigitsAux_succ]
  split
  · exact List.cons_ne_nil _ _
  · exact natDigitsAux_ne_nil _ _ _ (List.cons_ne_nil _ _)

/-- `int(str(n)) = n`. -/
theorem parseNat?_natText (n : Nat) : parseNat? (natText n) = some n := by
  rw [parseNat?_eq]
  have h := natText_ne_nil n
  have : (natText n).isEmpty = false := by
    cases hn : natText n with
    | nil => exact absurd hn h
    | cons => rfl
  rw [this]
  simp only [Bool.false_eq_true, if_false]
  unfold natText
  rw [natDigitsAux_fold (n + 1) n [] (by omega)]
  rfl

/-! ## `_read_colon_list`: fuel-free steps

`RCL ts pre r x`: with any fuel above the number of tokens, `readColonList` on `ts` started with the
strings `pre` and the flag `ready = r` returns `x`. -/

def RCL (ts : List Tk) (pre : List Str) (r : Bool) (x : List Str × List Tk) : Prop :=
  ∀ f, ts.length < f → readColonList f ts pre r = .ok x

theorem RCL.run {ts : List Tk} {pre : List Str} {r : Bool} {x : List Str × List Tk}
    (h : RCL ts pre r x) : readColonList (ts.length + 1) ts pre r = .ok x := h _ (Nat.lt_succ_self _)

theorem rcl_string (v : Str) (rest : List Tk) (pre : List Str) (f : Nat) :
    readColonList (f + 1) ((.string, v) :: rest) pre true = readColonList f rest (pre ++ [v]) false := by
  rw [readColonList]; rfl

theorem rcl_colon (v : Str) (rest : List Tk) (pre : List Str) (r : Bool) (f : Nat) :
    readColonList (f + 1) ((.colon, v) :: rest) pre r
      = readColonList f rest (if r then pre ++ [[]] else pre) true := by
  rw [readColonList]

theorem RCL_string {v : Str} {rest : List Tk} {pre : List Str} {x : List Str × List Tk}
    (h : RCL rest (pre ++ [v]) false x) : RCL ((.string, v) :: rest) pre true x := by
  intro f hf
  cases f with
  | zero => omega
  | succ f => rw [rcl_string]; exact h f (by simp only [List.length_cons] at hf; omega)

theorem RCL_colon {v : Str} {rest : List Tk} {pre : List Str} {r : Bool} {x : List Str × List Tk}
    (h : RCL rest (if r then pre ++ [[]] else pre) true x) : RCL ((.colon, v) :: rest) pre r x := by
  intro f hf
  cases f with
  | zero => omega
  | succ f => rw [rcl_colon]; exact h f (by simp only [List.length_cons] at hf; omega)

theorem appendLast_snoc : ∀ (pre : List Str) (a w : Str), appendLast (pre ++ [a]) w = pre ++ [a ++ w] := by
  intro pre
  induction pre with
  | nil => intro a w; rfl
  | cons p pre ih =>
    intro a w
    cases hp : pre ++ [a] with
    | nil => simp at hp
    | cons y t =>
      rw [List.cons_append, hp, appendLast, ← hp, ih]
      rfl

theorem RCL_plusChain : ∀ (qs : List Str) (pre : List Str) (a : Str) (tl : List Tk) (x : List Str × List Tk),
    RCL tl (pre ++ [a ++ qs.flatten]) false x → RCL (plusChain qs ++ tl) (pre ++ [a]) false x := by
  intro qs
  induction qs with
  | nil => intro pre a tl x h; simpa [plusChain] using h
  | cons q qs ih =>
    intro pre a tl x h f hf
    cases f with
    | zero => omega
    | succ f =>
      simp only [plusChain, List.cons_append]
      rw [readColonList]
      have hne : (pre ++ [a]).isEmpty = false := by cases pre <;> rfl
      simp only [Bool.false_or, hne, Bool.false_eq_true, if_false, expectString, appendLast_snoc]
      apply ih pre (a ++ q) tl x
      · simpa [List.append_assoc] using h
      · simp only [plusChain, List.cons_append, List.length_cons] at hf; omega

/-- A long string after a colon (or at the start with `ready`). -/
theorem RCL_chain {p : Str} {qs : List Str} {pre : List Str} {tl : List Tk} {x : List Str × List Tk}
    (h : RCL tl (pre ++ [p ++ qs.flatten]) false x) : RCL (chainToks (p :: qs) ++ tl) pre true x := by
  simp only [chainToks, List.cons_append]
  exact RCL_string (RCL_plusChain qs pre p tl x h)

/-- What the reader concatenates for a long string. -/
def lsRead (c : ExpCfg) (ext : Bool) (s : Str) : Str := (lsPieces c ext s).flatten

theorem RCL_ls {c : ExpCfg} {ext : Bool} {s : Str} {pre : List Str} {tl : List Tk} {x : List Str × List Tk}
    (hne : lsPieces c ext s ≠ []) (h : RCL tl (pre ++ [lsRead c ext s]) false x) :
    RCL (lsToks c ext s ++ tl) pre true x := by
  unfold lsToks
  unfold lsRead at h
  cases hp : lsPieces c ext s with
  | nil => exact absurd hp hne
  | cons p qs =>
    rw [hp] at h
    exact RCL_chain (by simpa using h)

/-- Tokens at which `_read_colon_list` stops when it is not waiting for a string. -/
def stopKind (k : Kind) : Bool := k == .equals || k == .brackOpen || k == .brackClose || k == .parenArgs

theorem RCL_stop {k : Kind} (hk : stopKind k = true) (v : Str) (tl : List Tk) (pre : List Str) :
    RCL ((k, v) :: tl) pre false (pre, (k, v) :: tl) := by
  intro f hf
  cases f with
  | zero => omega
  | succ f => cases k <;> first | rfl | exact absurd hk (by decide)

theorem RCL_nl (v : Str) (tl : List Tk) (pre : List Str) (h : tl.head?.map (·.1) ≠ some Kind.plus) :
    RCL ((.newline, v) :: tl) pre false (pre, (.newline, v) :: tl) := by
  intro f hf
  cases f with
  | zero => omega
  | succ f =>
    cases tl with
    | nil => rfl
    | cons t tl' =>
      obtain ⟨k, w⟩ := t
      cases k <;> first | rfl | exact absurd rfl h


/-! ## `read_tags` -/

/-- What `read_tags` collects for one written tag (before the final `upper()`): the `+` is a token of
its own and is put back in front of the case-folded rest. -/
def tagFold (P : ParseCfg) : Str → Str
  | '+' :: b => '+' :: P.foldStr b
  | t => P.foldStr t

/-- The duplicate check of `read_tags` on the collected tags. -/
def tagKeys (P : ParseCfg) (acc : List Str) : List Str := acc.map fun t => P.upStr (lstripTagPrefix t)

/-- The written tags are read back unchanged (needed only when tags are written: `custom_syntax`). -/
def TagsParseOK (P : ParseCfg) (c : ExpCfg) (tags : List Str) : Prop :=
  c.ext = true →
    (∀ t ∈ tags, P.upStr (tagFold P t) = t) ∧
    (tagKeys P (tags.map (tagFold P))).eraseDups.length = tags.length

instance (P : ParseCfg) (c : ExpCfg) (tags : List Str) : Decidable (TagsParseOK P c tags) := by
  unfold TagsParseOK; infer_instance

/-- The tags the parser gets: none without `custom_syntax`. -/
def effTags (c : ExpCfg) (tags : List Str) : List Str := if c.ext then tags else []

theorem readTags_string (P : ParseCfg) (v : Str) (rest : List Tk) (acc : List Str) (pre : Bool) :
    readTags P ((.string, v) :: rest) acc pre
      = readTags P rest (acc ++ [(if pre then ['+'] else []) ++ P.foldStr v]) false := by
  rw [readTags]

theorem readTags_plus (P : ParseCfg) (v : Str) (rest : List Tk) (acc : List Str) :
    readTags P ((.plus, v) :: rest) acc false = readTags P rest acc true := by
  rw [readTags]; rfl

theorem readTags_comma (P : ParseCfg) (v : Str) (rest : List Tk) (acc : List Str) (pre : Bool) :
    readTags P ((.comma, v) :: rest) acc pre = readTags P rest acc pre := by
  rw [readTags]

theorem readTags_close (P : ParseCfg) (v : Str) (rest : List Tk) (acc : List Str) :
    readTags P ((.brackClose, v) :: rest) acc false
      = if (tagKeys P acc).eraseDups.length ≠ acc.length then .error .tags
        else .ok (acc.map P.upStr, rest) := by
  rw [readTags]; rfl

theorem readTags_tagTok (P : ParseCfg) (t : Str) (tl : List Tk) (acc : List Str) :
    readTags P (tagTok t ++ tl) acc false = readTags P tl (acc ++ [tagFold P t]) false := by
  cases t with
  | nil => simp only [tagTok, tagFold, List.cons_append, List.nil_append, readTags_string]; rfl
  | cons a b =>
    by_cases ha : a = '+'
    · subst ha
      simp only [tagTok, tagFold, tkPlus, List.cons_append, List.nil_append, readTags_plus,
        readTags_string]
      rfl
    · have h1 : tagTok (a :: b) = [(.string, a :: b)] := by
        unfold tagTok; split
        · rename_i heq; injection heq with h _; exact absurd h ha
        · rfl
      have h2 : tagFold P (a :: b) = P.foldStr (a :: b) := by
        unfold tagFold; split
        · rename_i heq; injection heq with h _; exact absurd h ha
        · rfl
      rw [h1, h2]
      simp only [List.cons_append, List.nil_append, readTags_string]
      rfl

theorem readTags_inner (P : ParseCfg) : ∀ (ts : List Str) (tl : List Tk) (acc : List Str),
    readTags P (tagsInner ts ++ tkClose :: tl) acc false
      = readTags P (tkClose :: tl) (acc ++ ts.map (tagFold P)) false := by
  intro ts
  induction ts with
  | nil => intro tl acc; simp [tagsInner]
  | cons t ts ih =>
    intro tl acc
    cases ts with
    | nil => simp only [tagsInner, readTags_tagTok, List.map_cons, List.map_nil]
    | cons u ts =>
      simp only [tagsInner, List.append_assoc, List.cons_append, readTags_tagTok, tkComma,
        readTags_comma]
      rw [ih]
      simp only [List.map_cons, List.append_assoc, List.cons_append, List.nil_append]

theorem readTags_tags {P : ParseCfg} {c : ExpCfg} {tags : List Str} (h : TagsParseOK P c tags)
    (hext : c.ext = true) (tl : List Tk) :
    readTags P (tagsInner tags ++ tkClose :: tl) [] false = .ok (tags, tl) := by
  obtain ⟨h1, h2⟩ := h hext
  rw [readTags_inner, tkClose, readTags_close]
  simp only [List.nil_append, h2, List.length_map, ne_eq, not_true_eq_false, if_false, List.map_map]
  congr 2
  conv => rhs; rw [← List.map_id tags]
  apply List.map_congr_left
  intro t ht
  exact h1 t ht

/-- The head of the line after the name: optional tags, then one token. -/
def kvHead (P : ParseCfg) (toks : List Tk) : Except PErr (List Str × Tk × List Tk) :=
  match toks with
  | (.brackOpen, _) :: rest =>
    match readTags P rest [] false with
    | .error e => .error e
    | .ok (tags, t :: rest') => .ok (tags, t, rest')
    | .ok (_, []) => .error .eof
  | t :: rest => .ok ([], t, rest)
  | [] => .error .eof

theorem kvHead_other (P : ParseCfg) (k : Kind) (v : Str) (tl : List Tk) (hk : k ≠ .brackOpen) :
    kvHead P ((k, v) :: tl) = .ok ([], (k, v), tl) := by
  cases k <;> first | rfl | exact absurd rfl hk

theorem kvHead_optTags {P : ParseCfg} {c : ExpCfg} {tags : List Str} (h : TagsParseOK P c tags)
    (t : Tk) (tl : List Tk) (ht : t.1 ≠ .brackOpen) :
    kvHead P (optTags c tags ++ t :: tl) = .ok (effTags c tags, t, tl) := by
  unfold optTags effTags
  by_cases hext : c.ext = true
  · cases htg : tags with
    | nil =>
      obtain ⟨k, v⟩ := t
      simp only [List.isEmpty_nil, Bool.not_true, Bool.false_and, Bool.false_eq_true, if_false,
        List.nil_append, hext, if_true]
      exact kvHead_other P k v tl ht
    | cons a b =>
      simp only [List.isEmpty_cons, Bool.not_false, hext, Bool.and_self, if_true, tagsToks,
        List.cons_append, List.append_assoc, List.nil_append, tkOpen, kvHead]
      rw [← htg, readTags_tags h hext]
  · obtain ⟨k, v⟩ := t
    simp only [hext, Bool.and_false, Bool.false_eq_true, if_false, List.nil_append]
    exact kvHead_other P k v tl ht

theorem optTags_cases (c : ExpCfg) (tags : List Str) :
    (optTags c tags = [] ∧ effTags c tags = []) ∨
    (optTags c tags = tkOpen :: (tagsInner tags ++ [tkClose]) ∧ effTags c tags = tags ∧ c.ext = true) := by
  unfold optTags effTags tagsToks
  by_cases hext : c.ext = true
  · cases tags with
    | nil => left; simp [hext]
    | cons a b => right; simp [hext]
  · left; simp [hext]


/-! ## `parseKV` in stages -/

def kvStar (raw0 : Str) : Bool × Str :=
  match raw0 with | '*' :: t => (true, t) | t => (false, t)

def kvRo (P : ParseCfg) (t1 : Tk) (rest2 : List Tk) : Bool × Tk × List Tk :=
  if t1.1 = .string ∧ P.foldStr t1.2 = sReadonly then
    match rest2 with | t :: r => (true, t, r) | [] => (true, (.eof, []), [])
  else (false, t1, rest2)

def kvRep (P : ParseCfg) (rep0 : Bool) (t2 : Tk) (rest3 : List Tk) : Bool × Tk × List Tk :=
  if t2.1 = .string ∧ P.foldStr t2.2 = sReport then
    match rest3 with | t :: r => (true, t, r) | [] => (true, (.eof, []), [])
  else (rep0, t2, rest3)

def kvColonKind (P : ParseCfg) (typ : Nat) (k : Kind) : Except PErr (Option (List Str) × Bool × Option Kind) :=
  match k with
  | .colon => .ok (none, true, none)
  | .equals => if typ = P.tt.spawnflags then .ok (some [], false, some .equals) else .ok (none, false, none)
  | .newline => .ok (some [], false, some .newline)
  | k => .error (.unexpected k)

def kvR3 (kvVals0 : Option (List Str)) (hasEq0 : Option Kind) (hadColon : Bool) (rest4 : List Tk) :
    Except PErr (List Str × Kind × List Tk) :=
  match kvVals0, hasEq0 with
  | some l, some he => .ok (l, he, rest4)
  | _, _ =>
    match readColonList (rest4.length + 1) rest4 [] hadColon with
    | .error e => .error (.colon e)
    | .ok (l, (k, _) :: rest5) => .ok (l, k, rest5)
    | .ok (l, []) => .ok (l, .eof, [])

def kvAttrs (name : Str) (vals : List Str) : Except PErr (Str × Str × Str) :=
  match vals with
  | [a, b, c] => .ok (a, b, c)
  | [a, b] => .ok (a, b, [])
  | [a] => .ok (a, [], [])
  | [] => .ok (name, [], [])
  | _ => .error .tooManyAttrs

def kvFinish (P : ParseCfg) (name : Str) (tags : List Str) (typ : Nat) (ro rep : Bool)
    (vals : List Str) (hasEq : Kind) (rest5 : List Tk) : Except PErr ((List Str × KVRec) × List Tk) :=
  match kvAttrs name vals with
  | .error e => .error e
  | .ok (disp, dflt0, desc) =>
    let dflt :=
      if typ = P.tt.bool then
        (if P.foldStr dflt0 = sYes then ['1'] else if P.foldStr dflt0 = sNo then ['0'] else dflt0)
      else dflt0
    let mk (v : Vals) : KVRec :=
      { name := name, typ := typ, disp := disp, default := dflt, desc := desc, vals := v,
        readonly := ro, reportable := rep }
    if typ = P.tt.choices then
      if hasEq ≠ .equals then .error .noList
      else match parseArray P parseChoice rest5 with
        | .error e => .error e
        | .ok (l, rest6) => .ok ((tags, mk (.choices l)), rest6)
    else if typ = P.tt.spawnflags then
      if hasEq ≠ .equals then .error .noList
      else match parseArray P parseFlag rest5 with
        | .error e => .error e
        | .ok (l, rest6) => .ok ((tags, mk (.flags l)), rest6)
    else if hasEq = .equals then .error .hasList
    else .ok ((tags, mk .none), rest5)

/-- Everything after the flags `readonly` / `report`. -/
def kvTail (P : ParseCfg) (name : Str) (tags : List Str) (typ : Nat) (ro rep : Bool) (t3 : Tk)
    (rest4 : List Tk) : Except PErr ((List Str × KVRec) × List Tk) :=
  match kvColonKind P typ t3.1 with
  | .error e => .error e
  | .ok (kvVals0, hadColon, hasEq0) =>
    match kvR3 kvVals0 hasEq0 hadColon rest4 with
    | .error e => .error e
    | .ok (vals, hasEq, rest5) => kvFinish P name tags typ ro rep vals hasEq rest5

/-- Everything after the value type. -/
def kvMid (P : ParseCfg) (name : Str) (tags : List Str) (typ : Nat) (rep0 : Bool) (rest1 : List Tk) :
    Except PErr ((List Str × KVRec) × List Tk) :=
  match rest1 with
  | [] => .error .eof
  | t1 :: rest2 =>
    let (ro, t2, rest3) := kvRo P t1 rest2
    let (rep, t3, rest4) := kvRep P rep0 t2 rest3
    kvTail P name tags typ ro rep t3 rest4

def parseKV' (P : ParseCfg) (name : Str) (toks : List Tk) : Except PErr ((List Str × KVRec) × List Tk) :=
  match kvHead P toks with
  | .error e => .error e
  | .ok (tags, (vk, vv), rest1) =>
    if vk ≠ .parenArgs then .error (.unexpected vk) else
    let (rep0, raw) := kvStar (strip vv)
    match lookupType P raw with
    | none => .error .unknownType
    | some typ => kvMid P name tags typ rep0 rest1

theorem parseKV_eq (P : ParseCfg) (name : Str) (toks : List Tk) :
    parseKV P name toks = parseKV' P name toks := rfl


/-! ## normal forms -/

def kvFlagsOf (k : KVRec) : List Flag := match k.vals with | .flags l => l | _ => []
def kvChoicesOf (k : KVRec) : List Choice := match k.vals with | .choices l => l | _ => []

/-- The flag `_parse_flags` builds from the written line: the `[mask]` label is dropped again when
it heads the name that is read back. -/
def normFlag (c : ExpCfg) (f : Flag) : Flag :=
  let name := lsRead c c.ext (flagShown c f)
  let gen := '[' :: (natText f.mask ++ [']'])
  { mask := f.mask,
    name := if gen.isPrefixOf name then lstrip (name.drop gen.length) else name,
    dflt := f.dflt, tags := effTags c f.tags }

def normChoice (c : ExpCfg) (ch : Choice) : Choice :=
  { value := (choiceValueTok c ch.value).2, name := lsRead c false (replaceNl ch.name),
    tags := effTags c ch.tags }

/-- The default that is written (`0` for a boolean without one). -/
def kvD (c : ExpCfg) (k : KVRec) : Str :=
  if k.default.isEmpty && k.typ = c.tt.bool then ['0'] else k.default

/-- The default as read back (before the yes/no mapping). -/
def kvDefaultRead (c : ExpCfg) (k : KVRec) : Str :=
  if (kvD c k).isEmpty then [] else (defaultTok c (kvD c k)).2

def kvDescRead (c : ExpCfg) (k : KVRec) : Str :=
  if k.desc.isEmpty then [] else lsRead c c.ext k.desc

/-- The keyvalue as it is read back from its exported line (the documented decay). -/
def normKV (P : ParseCfg) (c : ExpCfg) (k : KVRec) : KVRec :=
  let dv := kvDefaultRead c k
  { name := k.name, typ := k.typ,
    disp := if k.typ = c.tt.spawnflags then k.name else lsRead c c.ext k.disp,
    default :=
      if k.typ = c.tt.bool then
        (if P.foldStr dv = sYes then ['1'] else if P.foldStr dv = sNo then ['0'] else dv)
      else dv,
    desc := kvDescRead c k,
    vals :=
      if k.typ = c.tt.spawnflags then .flags ((kvFlagsOf k).map (normFlag c))
      else if k.typ = c.tt.choices then .choices ((kvChoicesOf k).map (normChoice c))
      else .none,
    readonly := k.readonly, reportable := k.reportable }

/-- The type `IODef._parse` finds for a type text. -/
def ioLookup (P : ParseCfg) (txt : Str) : Option Nat :=
  if strip txt = sEhandle then some P.tt.ehandle else lookupType P (strip txt)

def normIO (P : ParseCfg) (c : ExpCfg) (io : IORec) : IORec :=
  { name := io.name, typ := (ioLookup P (c.tt.ioText.getD io.typ [])).getD io.typ,
    desc := if io.desc.isEmpty then [] else lsRead c c.ext io.desc }

def normItem (P : ParseCfg) (c : ExpCfg) : Item → Item
  | .kv tags k => .kv (effTags c tags) (normKV P c k)
  | .inp tags io => .inp (effTags c tags) (normIO P c io)
  | .out tags io => .out (effTags c tags) (normIO P c io)

/-! ## hypotheses -/

/-- Decidable equality of the type tables (a named instance: nothing else in the project can clash). -/
instance typeTabDecEq : DecidableEq TypeTab := fun a b =>
  decidable_of_iff (a.values = b.values ∧ a.lookup = b.lookup ∧ a.ioText = b.ioText ∧
      a.spawnflags = b.spawnflags ∧ a.choices = b.choices ∧ a.bool = b.bool ∧ a.ehandle = b.ehandle)
    (by cases a; cases b; simp)

/-- Facts about the parser's configuration. -/
def CfgParseOK (P : ParseCfg) (c : ExpCfg) : Prop :=
  P.tt = c.tt ∧ P.foldStr sReadonly = sReadonly ∧ P.foldStr sReport = sReport ∧
  c.tt.spawnflags ≠ c.tt.choices ∧ c.tt.bool ≠ c.tt.spawnflags

instance (P : ParseCfg) (c : ExpCfg) : Decidable (CfgParseOK P c) := by unfold CfgParseOK; infer_instance

/-- The value-type text is found again by `VALUE_TYPE_LOOKUP`. -/
def TypeParseOK (P : ParseCfg) (c : ExpCfg) (typ : Nat) : Prop :=
  strip (typeText c.tt typ) = typeText c.tt typ ∧ (typeText c.tt typ).head? ≠ some '*' ∧
  lookupType P (typeText c.tt typ) = some typ

instance (P : ParseCfg) (c : ExpCfg) (typ : Nat) : Decidable (TypeParseOK P c typ) := by
  unfold TypeParseOK; infer_instance

def FlagParseOK (P : ParseCfg) (c : ExpCfg) (f : Flag) : Prop :=
  TagsParseOK P c f.tags ∧ f.mask ≠ 0 ∧ 2 ^ Nat.log2 f.mask = f.mask ∧ lsPieces c c.ext (flagShown c f) ≠ []

instance (P : ParseCfg) (c : ExpCfg) (f : Flag) : Decidable (FlagParseOK P c f) := by
  unfold FlagParseOK; infer_instance

def ChoiceParseOK (P : ParseCfg) (c : ExpCfg) (ch : Choice) : Prop :=
  TagsParseOK P c ch.tags ∧ lsPieces c false (replaceNl ch.name) ≠ []

instance (P : ParseCfg) (c : ExpCfg) (ch : Choice) : Decidable (ChoiceParseOK P c ch) := by
  unfold ChoiceParseOK; infer_instance

/-- The hypotheses of `parse_kv`. The conjunct on spawnflags keyvalues is the open finding
`spawnflags-default-desc`: the writer emits a default / description there, the syntax has no place for
them (`parse_kv_spawnflags_desc_garbled`). -/
def KvParseOK (P : ParseCfg) (c : ExpCfg) (tags : List Str) (k : KVRec) : Prop :=
  CfgParseOK P c ∧ TagsParseOK P c tags ∧ TypeParseOK P c k.typ ∧
  (k.typ ≠ c.tt.spawnflags → lsPieces c c.ext k.disp ≠ []) ∧
  (k.desc ≠ [] → lsPieces c c.ext k.desc ≠ []) ∧
  (k.typ = c.tt.spawnflags → k.default = [] ∧ k.desc = []) ∧
  (k.typ = c.tt.spawnflags → ∀ f ∈ kvFlagsOf k, FlagParseOK P c f) ∧
  (k.typ = c.tt.choices → ∀ ch ∈ kvChoicesOf k, ChoiceParseOK P c ch)

instance (P : ParseCfg) (c : ExpCfg) (tags : List Str) (k : KVRec) : Decidable (KvParseOK P c tags k) := by
  unfold KvParseOK; infer_instance

/-- The hypotheses of `parse_io`. -/
def IoParseOK (P : ParseCfg) (c : ExpCfg) (tags : List Str) (io : IORec) : Prop :=
  TagsParseOK P c tags ∧ (ioLookup P (c.tt.ioText.getD io.typ [])).isSome = true ∧
  (io.desc ≠ [] → lsPieces c c.ext io.desc ≠ [])

instance (P : ParseCfg) (c : ExpCfg) (tags : List Str) (io : IORec) : Decidable (IoParseOK P c tags io) := by
  unfold IoParseOK; infer_instance

/-! ## list items -/

theorem strip_dflt (b : Bool) : (strip (if b then ['1'] else ['0']) == ['1']) = b := by
  cases b <;> decide

theorem parseFlag_norm {P : ParseCfg} {c : ExpCfg} {f : Flag} (h : FlagParseOK P c f) :
    parseFlag (natText f.mask) [lsRead c c.ext (flagShown c f), if f.dflt then ['1'] else ['0']]
      (effTags c f.tags) = .ok (normFlag c f) := by
  obtain ⟨_, h0, hp, _⟩ := h
  unfold parseFlag
  simp only [parseNat?_natText, h0, hp, ne_eq, not_true_eq_false, or_self, if_false, strip_dflt]
  rfl

theorem parseChoice_norm (c : ExpCfg) (ch : Choice) :
    parseChoice (choiceValueTok c ch.value).2 [lsRead c false (replaceNl ch.name)] (effTags c ch.tags)
      = .ok (normChoice c ch) := rfl


/-! ## `_parse_colon_array` -/

/-- With any fuel above the number of tokens the array loop on `ts` returns `x`. -/
def PA {α : Type} (P : ParseCfg) (item : Str → List Str → List Str → Except PErr α)
    (ts : List Tk) (acc : List α) (x : List α × List Tk) : Prop :=
  ∀ f, ts.length < f → parseArrayLoop P item f ts acc = .ok x

section array
variable {α : Type} {P : ParseCfg} {item : Str → List Str → List Str → Except PErr α}

theorem pal_nl (v : Str) (rest : List Tk) (acc : List α) (f : Nat) :
    parseArrayLoop P item (f + 1) ((.newline, v) :: rest) acc = parseArrayLoop P item f rest acc := rfl

theorem pal_close (v : Str) (rest : List Tk) (acc : List α) (f : Nat) :
    parseArrayLoop P item (f + 1) ((.brackClose, v) :: rest) acc = .ok (acc, rest) := rfl

theorem pal_string (v : Str) (rest : List Tk) (acc : List α) (f : Nat) :
    parseArrayLoop P item (f + 1) ((.string, v) :: rest) acc =
      match readColonList (rest.length + 1) rest [] false with
      | .error e => .error (.colon e)
      | .ok (vals, rest1) =>
        match rest1 with
        | (.brackOpen, _) :: rest2 =>
          match readTags P rest2 [] false with
          | .error e => .error e
          | .ok (tags, rest3) =>
            match item v vals tags with
            | .error e => .error e
            | .ok a => parseArrayLoop P item f rest3 (acc ++ [a])
        | _ =>
          match item v vals [] with
          | .error e => .error e
          | .ok a => parseArrayLoop P item f rest1 (acc ++ [a]) := rfl

theorem PA_nl {v : Str} {rest : List Tk} {acc : List α} {x : List α × List Tk}
    (h : PA P item rest acc x) : PA P item ((.newline, v) :: rest) acc x := by
  intro f hf
  cases f with
  | zero => omega
  | succ f => rw [pal_nl]; exact h f (by simp only [List.length_cons] at hf; omega)

theorem PA_close (v : Str) (rest : List Tk) (acc : List α) :
    PA P item ((.brackClose, v) :: rest) acc (acc, rest) := by
  intro f hf
  cases f with
  | zero => omega
  | succ f => rw [pal_close]

/-- One line `value : … [tags]⏎` of the array. -/
theorem PA_item {c : ExpCfg} {tags : List Str} (v : Str) (line tl : List Tk) (vals : List Str) (a : α)
    (acc : List α) (x : List α × List Tk)
    (hrcl : RCL (line ++ (optTags c tags ++ tkNl :: tl)) [] false (vals, optTags c tags ++ tkNl :: tl))
    (htags : TagsParseOK P c tags)
    (hitem : item v vals (effTags c tags) = .ok a)
    (h : PA P item tl (acc ++ [a]) x) :
    PA P item ((.string, v) :: (line ++ (optTags c tags ++ tkNl :: tl))) acc x := by
  intro f hf
  cases f with
  | zero => omega
  | succ f =>
    rw [pal_string, hrcl.run]
    have hlen : tl.length + 1 < f := by
      simp only [List.length_cons, List.length_append] at hf; omega
    cases f with
    | zero => omega
    | succ f' =>
      rcases optTags_cases c tags with ⟨h1, h2⟩ | ⟨h1, h2, hext⟩
      · rw [h2] at hitem
        simp only [h1, List.nil_append, tkNl, hitem, pal_nl]
        exact h f' (by omega)
      · rw [h2] at hitem
        simp only [h1, tkOpen, List.cons_append, List.append_assoc, List.nil_append,
          readTags_tags htags hext, hitem, tkNl, pal_nl]
        exact h f' (by omega)

end array


/-! ## the lines of a flags / choices list -/

theorem RCL_optTags_nl (c : ExpCfg) (tags : List Str) (tl : List Tk) (pre : List Str)
    (h : tl.head?.map (·.1) ≠ some Kind.plus) :
    RCL (optTags c tags ++ tkNl :: tl) pre false (pre, optTags c tags ++ tkNl :: tl) := by
  rcases optTags_cases c tags with ⟨h1, _⟩ | ⟨h1, _, _⟩
  · rw [h1]; exact RCL_nl _ tl pre h
  · rw [h1]; exact RCL_stop (by decide) _ _ pre

theorem flagToks_append (c : ExpCfg) (f : Flag) (tl : List Tk) :
    flagToks c f ++ tl = (.string, natText f.mask) ::
      ((tkColon :: (lsToks c c.ext (flagShown c f) ++ [tkColon, (.string, if f.dflt then ['1'] else ['0'])]))
        ++ (optTags c f.tags ++ tkNl :: tl)) := by
  simp [flagToks, List.append_assoc]

theorem choiceToks_append (c : ExpCfg) (ch : Choice) (tl : List Tk) :
    choiceToks c ch ++ tl = (.string, (choiceValueTok c ch.value).2) ::
      ((tkColon :: lsToks c false (replaceNl ch.name)) ++ (optTags c ch.tags ++ tkNl :: tl)) := by
  simp [choiceToks, choiceValueTok, List.append_assoc]

theorem PA_flag {P : ParseCfg} {c : ExpCfg} {f : Flag} (hf : FlagParseOK P c f) (tl : List Tk)
    (htl : tl.head?.map (·.1) ≠ some Kind.plus) (acc : List Flag) (x : List Flag × List Tk)
    (h : PA P parseFlag tl (acc ++ [normFlag c f]) x) :
    PA P parseFlag (flagToks c f ++ tl) acc x := by
  rw [flagToks_append]
  refine PA_item _ _ tl [lsRead c c.ext (flagShown c f), if f.dflt then ['1'] else ['0']]
    (normFlag c f) acc x ?_ hf.1 (parseFlag_norm hf) h
  simp only [List.cons_append, List.append_assoc, tkColon]
  apply RCL_colon
  simp only [Bool.false_eq_true, if_false]
  apply RCL_ls hf.2.2.2
  apply RCL_colon
  simp only [Bool.false_eq_true, if_false, List.nil_append]
  apply RCL_string
  exact RCL_optTags_nl c f.tags tl _ htl

theorem PA_choice {P : ParseCfg} {c : ExpCfg} {ch : Choice} (hc : ChoiceParseOK P c ch) (tl : List Tk)
    (htl : tl.head?.map (·.1) ≠ some Kind.plus) (acc : List Choice) (x : List Choice × List Tk)
    (h : PA P parseChoice tl (acc ++ [normChoice c ch]) x) :
    PA P parseChoice (choiceToks c ch ++ tl) acc x := by
  rw [choiceToks_append]
  refine PA_item _ _ tl [lsRead c false (replaceNl ch.name)] (normChoice c ch) acc x ?_ hc.1
    (parseChoice_norm c ch) h
  simp only [List.cons_append, tkColon]
  apply RCL_colon
  simp only [Bool.false_eq_true, if_false]
  apply RCL_ls hc.2
  exact RCL_optTags_nl c ch.tags tl _ htl

theorem head_lines {β : Type} (toks : β → List Tk) (hs : ∀ b, ∃ v r, toks b = (Kind.string, v) :: r)
    (l : List β) (k : Kind) (hk : k ≠ .plus) (v : Str) (rest : List Tk) :
    (l.flatMap toks ++ (k, v) :: rest).head?.map (·.1) ≠ some Kind.plus := by
  cases l with
  | nil => simpa using hk
  | cons b l =>
    obtain ⟨w, r, hb⟩ := hs b
    simp [List.flatMap_cons, hb]

theorem flagToks_head (c : ExpCfg) (f : Flag) : ∃ v r, flagToks c f = (Kind.string, v) :: r := ⟨_, _, rfl⟩
theorem choiceToks_head (c : ExpCfg) (ch : Choice) : ∃ v r, choiceToks c ch = (Kind.string, v) :: r :=
  ⟨_, _, rfl⟩

theorem PA_flags {P : ParseCfg} {c : ExpCfg} (rest : List Tk) : ∀ (l : List Flag) (acc : List Flag),
    (∀ f ∈ l, FlagParseOK P c f) →
    PA P parseFlag (l.flatMap (flagToks c) ++ tkClose :: rest) acc (acc ++ l.map (normFlag c), rest) := by
  intro l
  induction l with
  | nil =>
    intro acc _
    simp only [List.flatMap_nil, List.nil_append, List.map_nil, List.append_nil]
    exact PA_close _ rest acc
  | cons f l ih =>
    intro acc h
    rw [List.flatMap_cons, List.append_assoc]
    apply PA_flag (h f (List.mem_cons_self ..)) _ (head_lines _ (flagToks_head c) l _ (by decide) _ _)
    have := ih (acc ++ [normFlag c f]) (fun g hg => h g (List.mem_cons_of_mem _ hg))
    simpa [List.append_assoc, tkClose] using this

theorem PA_choices {P : ParseCfg} {c : ExpCfg} (rest : List Tk) : ∀ (l : List Choice) (acc : List Choice),
    (∀ ch ∈ l, ChoiceParseOK P c ch) →
    PA P parseChoice (l.flatMap (choiceToks c) ++ tkClose :: rest) acc (acc ++ l.map (normChoice c), rest) := by
  intro l
  induction l with
  | nil =>
    intro acc _
    simp only [List.flatMap_nil, List.nil_append, List.map_nil, List.append_nil]
    exact PA_close _ rest acc
  | cons ch l ih =>
    intro acc h
    rw [List.flatMap_cons, List.append_assoc]
    apply PA_choice (h ch (List.mem_cons_self ..)) _ (head_lines _ (choiceToks_head c) l _ (by decide) _ _)
    have := ih (acc ++ [normChoice c ch]) (fun g hg => h g (List.mem_cons_of_mem _ hg))
    simpa [List.append_assoc, tkClose] using this

/-- `_parse_colon_array` on `⏎ [ ⏎ lines ]`. -/
theorem parseArray_list {α : Type} {P : ParseCfg} {item : Str → List Str → List Str → Except PErr α}
    (lines rest : List Tk) (x : List α × List Tk)
    (h : PA P item (lines ++ tkClose :: rest) [] x) :
    parseArray P item (tkNl :: tkOpen :: tkNl :: (lines ++ tkClose :: rest)) = .ok x := by
  have := (PA_nl (v := ['\n']) h) _ (Nat.lt_succ_self _)
  simpa [parseArray, tkNl, tkOpen, expectKind] using this


/-! ## the keyvalue line, piece by piece -/

def roToks (k : KVRec) : List Tk := if k.readonly then [(.string, sReadonly)] else []
def repToks (k : KVRec) : List Tk := if k.reportable then [(.string, sReport)] else []
def kvDispToks (c : ExpCfg) (k : KVRec) : List Tk :=
  if k.typ ≠ c.tt.spawnflags then tkColon :: lsToks c c.ext k.disp else []

def kvMidToks (c : ExpCfg) (k : KVRec) : List Tk :=
  (if !(kvD c k).isEmpty then
      tkColon :: defaultTok c (kvD c k) :: (if !k.desc.isEmpty then [tkColon] else [])
    else (if !k.desc.isEmpty then [tkColon, tkColon] else []))
  ++ (if !k.desc.isEmpty then lsToks c c.ext k.desc else [])

def kvListToks (c : ExpCfg) (k : KVRec) : List Tk :=
  if k.typ = c.tt.spawnflags then listToks ((kvFlagsOf k).flatMap (flagToks c))
  else if k.typ = c.tt.choices then listToks ((kvChoicesOf k).flatMap (choiceToks c))
  else []

theorem flags_match (c : ExpCfg) (k : KVRec) :
    (match k.vals with | .flags l => l.flatMap (flagToks c) | _ => []) = (kvFlagsOf k).flatMap (flagToks c) := by
  unfold kvFlagsOf; cases k.vals <;> rfl

theorem choices_match (c : ExpCfg) (k : KVRec) :
    (match k.vals with | .choices l => l.flatMap (choiceToks c) | _ => [])
      = (kvChoicesOf k).flatMap (choiceToks c) := by
  unfold kvChoicesOf; cases k.vals <;> rfl

theorem kvToks_tail (c : ExpCfg) (tags : List Str) (k : KVRec) (rest : List Tk) :
    (kvToks c tags k).tail ++ rest = optTags c tags ++ (.parenArgs, typeText c.tt k.typ) ::
      (roToks k ++ (repToks k ++ (kvDispToks c k ++ (kvMidToks c k ++ (kvListToks c k ++ tkNl :: rest))))) := by
  obtain ⟨n, ty, di, de, ds, vals, ro, rp⟩ := k
  cases vals <;>
    (unfold kvToks roToks repToks kvDispToks kvMidToks kvListToks kvD
     simp only [List.tail_cons, List.append_assoc, List.cons_append, List.nil_append]
     rfl)

/-- The strings of the colon list after the display name. -/
def kvMidVals (c : ExpCfg) (k : KVRec) : List Str :=
  if !(kvD c k).isEmpty then
    (defaultTok c (kvD c k)).2 :: (if !k.desc.isEmpty then [lsRead c c.ext k.desc] else [])
  else if !k.desc.isEmpty then [[], lsRead c c.ext k.desc] else []

theorem ne_nil_of_isEmpty_false {α : Type} {l : List α} (h : l.isEmpty = false) : l ≠ [] := by
  intro h0; rw [h0] at h; simp at h

theorem RCL_mid {c : ExpCfg} {k : KVRec} (hdesc : k.desc ≠ [] → lsPieces c c.ext k.desc ≠ [])
    (pre : List Str) (T : List Tk) (x : List Str × List Tk)
    (h : RCL T (pre ++ kvMidVals c k) false x) : RCL (kvMidToks c k ++ T) pre false x := by
  unfold kvMidToks
  unfold kvMidVals at h
  cases hd : (kvD c k).isEmpty <;> cases he : k.desc.isEmpty <;>
    simp only [hd, he, Bool.not_false, Bool.not_true, if_true, Bool.false_eq_true, if_false,
      List.cons_append, List.nil_append, List.append_nil, tkColon, defaultTok] at h ⊢
  · apply RCL_colon
    simp only [Bool.false_eq_true, if_false]
    apply RCL_string
    apply RCL_colon
    simp only [Bool.false_eq_true, if_false]
    apply RCL_ls (hdesc (ne_nil_of_isEmpty_false he))
    simpa [List.append_assoc] using h
  · apply RCL_colon
    simp only [Bool.false_eq_true, if_false]
    apply RCL_string
    exact h
  · apply RCL_colon
    simp only [Bool.false_eq_true, if_false]
    apply RCL_colon
    simp only [if_true]
    apply RCL_ls (hdesc (ne_nil_of_isEmpty_false he))
    simpa [List.append_assoc] using h
  · simpa using h

theorem kvAttrs_vals (c : ExpCfg) (k : KVRec) (name dispR : Str) :
    kvAttrs name (dispR :: kvMidVals c k) = .ok (dispR, kvDefaultRead c k, kvDescRead c k) := by
  unfold kvMidVals kvDefaultRead kvDescRead
  cases hd : (kvD c k).isEmpty <;> cases he : k.desc.isEmpty <;> rfl

/-- The colon list of a keyvalue that has a display name, up to the token `(kd, v)` that ends it. -/
theorem RCL_kvColons {c : ExpCfg} {k : KVRec} (hdisp : lsPieces c c.ext k.disp ≠ [])
    (hdesc : k.desc ≠ [] → lsPieces c c.ext k.desc ≠ []) (T : List Tk)
    (hT : ∀ pre, RCL T pre false (pre, T)) :
    RCL (lsToks c c.ext k.disp ++ (kvMidToks c k ++ T)) [] true
      (lsRead c c.ext k.disp :: kvMidVals c k, T) := by
  apply RCL_ls hdisp
  apply RCL_mid hdesc
  exact hT _

/-! ## the stages on these pieces -/

theorem kvStar_of {s : Str} (h : s.head? ≠ some '*') : kvStar s = (false, s) := by
  unfold kvStar
  split
  · exact absurd rfl h
  · rfl

theorem kvMid_flags {P : ParseCfg} (hro : P.foldStr sReadonly = sReadonly)
    (hrep : P.foldStr sReport = sReport) (name : Str) (tags : List Str) (typ : Nat) (k : KVRec)
    (t : Tk) (X : List Tk) (ht : t.1 ≠ .string) :
    kvMid P name tags typ false (roToks k ++ (repToks k ++ t :: X))
      = kvTail P name tags typ k.readonly k.reportable t X := by
  have hne : sReport ≠ sReadonly := by decide
  unfold roToks repToks
  cases k.readonly <;> cases k.reportable <;>
    simp [kvMid, kvRo, kvRep, hro, hrep, ht, hne]

theorem kvTail_colon {P : ParseCfg} (name : Str) (tags : List Str) (typ : Nat) (ro rep : Bool)
    {X : List Tk} {vals : List Str} {t : Tk} {Y : List Tk}
    (hrcl : RCL X [] true (vals, t :: Y)) :
    kvTail P name tags typ ro rep tkColon X = kvFinish P name tags typ ro rep vals t.1 Y := by
  obtain ⟨kd, v⟩ := t
  simp only [kvTail, tkColon, kvColonKind, kvR3, hrcl.run]

theorem kvTail_eq {P : ParseCfg} (name : Str) (tags : List Str) (typ : Nat) (ro rep : Bool)
    (X : List Tk) (htyp : typ = P.tt.spawnflags) :
    kvTail P name tags typ ro rep tkEq X = kvFinish P name tags typ ro rep [] .equals X := by
  simp only [kvTail, tkEq, kvColonKind, htyp, if_true, kvR3]


/-! ## `parse_kv` -/

/-- What is left after a keyvalue: the list forms stop behind the `]`, the others consume the NEWLINE. -/
def kvRest (c : ExpCfg) (k : KVRec) (rest : List Tk) : List Tk :=
  if k.typ = c.tt.spawnflags ∨ k.typ = c.tt.choices then tkNl :: rest else rest

theorem listToks_append (lines rest : List Tk) :
    listToks lines ++ tkNl :: rest = tkEq :: (tkNl :: tkOpen :: tkNl :: (lines ++ tkClose :: (tkNl :: rest))) := by
  simp [listToks, List.append_assoc]

theorem stop_eq (T : List Tk) (pre : List Str) : RCL (tkEq :: T) pre false (pre, tkEq :: T) :=
  RCL_stop (by decide) _ _ pre

/-- Keyvalues that are neither spawnflags nor choices. -/
theorem parse_kv_plain {P : ParseCfg} {c : ExpCfg} {tags : List Str} {k : KVRec} {rest : List Tk}
    (h : KvParseOK P c tags k) (hrest : rest.head?.map (·.1) ≠ some Kind.plus)
    (hs : k.typ ≠ c.tt.spawnflags) (hc : k.typ ≠ c.tt.choices) :
    parseKV P k.name ((kvToks c tags k).tail ++ rest) = .ok ((effTags c tags, normKV P c k), rest) := by
  obtain ⟨⟨htt, hro, hrep, hsc, hbs⟩, htags, ⟨hstrip, hstar, hlook⟩, hdisp, hdesc, hsf, hflags, hchoices⟩ := h
  rw [parseKV_eq, kvToks_tail, parseKV', kvHead_optTags htags _ _ (by simp)]
  simp only [ne_eq, not_true_eq_false, if_false, hstrip, kvStar_of hstar, hlook]
  have hl : kvListToks c k = [] := by simp [kvListToks, hs, hc]
  have hd : kvDispToks c k = tkColon :: lsToks c c.ext k.disp := by simp [kvDispToks, hs]
  rw [hl, hd, List.nil_append, List.cons_append, kvMid_flags hro hrep _ _ _ _ _ _ (by decide),
    kvTail_colon _ _ _ _ _ (RCL_kvColons (hdisp hs) hdesc (tkNl :: rest) (fun pre => RCL_nl _ rest pre hrest))]
  simp only [kvFinish, kvAttrs_vals, htt, hs, hc, if_false, reduceCtorEq, normKV, tkNl]


/-- Choices keyvalues. -/
theorem parse_kv_choices {P : ParseCfg} {c : ExpCfg} {tags : List Str} {k : KVRec} {rest : List Tk}
    (h : KvParseOK P c tags k) (hc : k.typ = c.tt.choices) :
    parseKV P k.name ((kvToks c tags k).tail ++ rest)
      = .ok ((effTags c tags, normKV P c k), tkNl :: rest) := by
  obtain ⟨⟨htt, hro, hrep, hsc, hbs⟩, htags, ⟨hstrip, hstar, hlook⟩, hdisp, hdesc, hsf, hflags, hchoices⟩ := h
  have hs : k.typ ≠ c.tt.spawnflags := by rw [hc]; exact fun e => hsc e.symm
  rw [parseKV_eq, kvToks_tail, parseKV', kvHead_optTags htags _ _ (by simp)]
  simp only [ne_eq, not_true_eq_false, if_false, hstrip, kvStar_of hstar, hlook]
  have hl : kvListToks c k = listToks ((kvChoicesOf k).flatMap (choiceToks c)) := by
    unfold kvListToks; rw [if_neg hs, if_pos hc]
  have hd : kvDispToks c k = tkColon :: lsToks c c.ext k.disp := by simp [kvDispToks, hs]
  rw [hl, hd, listToks_append, List.cons_append, kvMid_flags hro hrep _ _ _ _ _ _ (by decide),
    kvTail_colon _ _ _ _ _ (RCL_kvColons (hdisp hs) hdesc _ (stop_eq _))]
  have hpa := parseArray_list (P := P) (item := parseChoice) _ (tkNl :: rest) _
    (PA_choices (tkNl :: rest) (kvChoicesOf k) [] (hchoices hc))
  have hsc' : c.tt.choices ≠ c.tt.spawnflags := fun e => hsc e.symm
  simp only [kvFinish, kvAttrs_vals, htt, hc, hsc', if_false, if_true, normKV, hpa, tkEq,
    ne_eq, not_true_eq_false, List.nil_append]

/-- Spawnflags keyvalues (without default and description, see `parse_kv_spawnflags_desc_garbled`). -/
theorem parse_kv_spawnflags {P : ParseCfg} {c : ExpCfg} {tags : List Str} {k : KVRec} {rest : List Tk}
    (h : KvParseOK P c tags k) (hs : k.typ = c.tt.spawnflags) :
    parseKV P k.name ((kvToks c tags k).tail ++ rest)
      = .ok ((effTags c tags, normKV P c k), tkNl :: rest) := by
  obtain ⟨⟨htt, hro, hrep, hsc, hbs⟩, htags, ⟨hstrip, hstar, hlook⟩, hdisp, hdesc, hsf, hflags, hchoices⟩ := h
  obtain ⟨hdef, hds⟩ := hsf hs
  have hc : k.typ ≠ c.tt.choices := by rw [hs]; exact hsc
  have hb : k.typ ≠ c.tt.bool := by rw [hs]; exact fun e => hbs e.symm
  rw [parseKV_eq, kvToks_tail, parseKV', kvHead_optTags htags _ _ (by simp)]
  simp only [ne_eq, not_true_eq_false, if_false, hstrip, kvStar_of hstar, hlook]
  have hl : kvListToks c k = listToks ((kvFlagsOf k).flatMap (flagToks c)) := by
    simp [kvListToks, hs]
  have hd : kvDispToks c k = [] := by simp [kvDispToks, hs]
  have hkd : kvD c k = [] := by simp [kvD, hdef, hb]
  have hm : kvMidToks c k = [] := by simp [kvMidToks, hkd, hds]
  have hs' : k.typ = P.tt.spawnflags := by rw [htt]; exact hs
  rw [hl, hd, hm, listToks_append, List.nil_append, List.nil_append,
    kvMid_flags hro hrep _ _ _ _ _ _ (by decide), kvTail_eq _ _ _ _ _ _ hs']
  have hpa := parseArray_list (P := P) (item := parseFlag) _ (tkNl :: rest) _
    (PA_flags (tkNl :: rest) (kvFlagsOf k) [] (hflags hs))
  simp only [kvFinish, kvAttrs, htt, hs, hsc, hbs.symm, if_false, if_true, normKV, hpa,
    ne_eq, not_true_eq_false, List.nil_append, kvDefaultRead, kvDescRead, hkd, hds, List.isEmpty_nil]

/-- **The keyvalue parser on the exported line** returns the normal form. -/
theorem parse_kv {P : ParseCfg} {c : ExpCfg} {tags : List Str} {k : KVRec} {rest : List Tk}
    (h : KvParseOK P c tags k) (hrest : rest.head?.map (·.1) ≠ some Kind.plus) :
    parseKV P k.name ((kvToks c tags k).tail ++ rest)
      = .ok ((effTags c tags, normKV P c k), kvRest c k rest) := by
  unfold kvRest
  by_cases hs : k.typ = c.tt.spawnflags
  · rw [if_pos (Or.inl hs)]; exact parse_kv_spawnflags h hs
  · by_cases hc : k.typ = c.tt.choices
    · rw [if_pos (Or.inr hc)]; exact parse_kv_choices h hc
    · rw [if_neg (by intro h'; rcases h' with h' | h'; exact hs h'; exact hc h')]
      exact parse_kv_plain h hrest hs hc


/-! ## `parse_io` -/

def parseIO' (P : ParseCfg) (toks : List Tk) : Except PErr ((List Str × IORec) × List Tk) :=
  match expectKind .string toks with
  | none => .error (.unexpected .string)
  | some (name, rest0) =>
    match kvHead P rest0 with
    | .error e => .error e
    | .ok (tags, (_, vv), rest1) =>
      match ioLookup P vv with
      | none => .error .unknownType
      | some typ =>
        match readColonList (rest1.length + 1) rest1 [] false with
        | .error e => .error (.colon e)
        | .ok (vals, rest2) =>
          match rest2 with
          | (.newline, _) :: rest3 =>
            (match vals with
              | [] => .ok ((tags, { name := name, typ := typ, desc := [] }), rest3)
              | [d] => .ok ((tags, { name := name, typ := typ, desc := d }), rest3)
              | _ => .error .tooManyAttrs)
          | (k, _) :: _ => .error (.unexpected k)
          | [] => .error .eof

theorem parseIO_eq (P : ParseCfg) (toks : List Tk) : parseIO P toks = parseIO' P toks := rfl

def ioDescToks (c : ExpCfg) (io : IORec) : List Tk :=
  if !io.desc.isEmpty then tkColon :: lsToks c c.ext io.desc else []

theorem ioToks_tail (c : ExpCfg) (kw : Str) (tags : List Str) (io : IORec) (rest : List Tk) :
    (ioToks c kw tags io).tail ++ rest = (.string, io.name) ::
      (optTags c tags ++ (.parenArgs, c.tt.ioText.getD io.typ []) :: (ioDescToks c io ++ tkNl :: rest)) := by
  unfold ioToks optTags ioDescToks
  simp only [List.tail_cons, List.append_assoc, List.cons_append, List.nil_append, Bool.and_comm]

/-- **The input / output parser on the exported line** (after the keyword) returns the normal form. -/
theorem parse_io {P : ParseCfg} {c : ExpCfg} {kw : Str} {tags : List Str} {io : IORec} {rest : List Tk}
    (h : IoParseOK P c tags io) (hrest : rest.head?.map (·.1) ≠ some Kind.plus) :
    parseIO P ((ioToks c kw tags io).tail ++ rest) = .ok ((effTags c tags, normIO P c io), rest) := by
  obtain ⟨htags, hlk, hdesc⟩ := h
  obtain ⟨typ, htyp⟩ := Option.isSome_iff_exists.mp hlk
  rw [parseIO_eq, ioToks_tail, parseIO']
  simp only [expectKind, if_true, kvHead_optTags htags _ _ (by simp : (Kind.parenArgs, _).1 ≠ Kind.brackOpen), htyp]
  unfold normIO ioDescToks
  rw [htyp]
  cases he : io.desc.isEmpty
  · have hr : RCL (tkColon :: lsToks c c.ext io.desc ++ tkNl :: rest) [] false
        ([lsRead c c.ext io.desc], tkNl :: rest) := by
      simp only [tkColon, List.cons_append]
      apply RCL_colon
      simp only [Bool.false_eq_true, if_false]
      apply RCL_ls (hdesc (ne_nil_of_isEmpty_false he))
      exact RCL_nl _ rest _ hrest
    simp only [Bool.not_false, if_true, Bool.false_eq_true, if_false]
    rw [hr.run]
    simp only [tkNl, Option.getD_some]
  · have hr : RCL (tkNl :: rest) [] false ([], tkNl :: rest) := RCL_nl _ rest _ hrest
    simp only [Bool.not_true, Bool.false_eq_true, if_false, List.nil_append, if_true]
    rw [hr.run]
    simp only [tkNl, Option.getD_some]


/-! ## `parse_body` -/

/-- With any fuel above the number of tokens the body loop on `ts` returns `x`. -/
def PB (P : ParseCfg) (ts : List Tk) (acc : List Item) (x : List Item × List Tk) : Prop :=
  ∀ f, ts.length < f → parseBody P f ts acc = .ok x

theorem pb_close (P : ParseCfg) (v : Str) (rest : List Tk) (acc : List Item) (f : Nat) :
    parseBody P (f + 1) ((.brackClose, v) :: rest) acc = .ok (acc, rest) := rfl

theorem pb_nl (P : ParseCfg) (v : Str) (rest : List Tk) (acc : List Item) (f : Nat) :
    parseBody P (f + 1) ((.newline, v) :: rest) acc = parseBody P f rest acc := rfl

theorem pb_string (P : ParseCfg) (v : Str) (rest : List Tk) (acc : List Item) (f : Nat) :
    parseBody P (f + 1) ((.string, v) :: rest) acc =
      if P.foldStr v = sInput then
        match parseIO P rest with
        | .error e => .error e
        | .ok ((tags, io), rest') => parseBody P f rest' (acc ++ [.inp tags io])
      else if P.foldStr v = sOutput then
        match parseIO P rest with
        | .error e => .error e
        | .ok ((tags, io), rest') => parseBody P f rest' (acc ++ [.out tags io])
      else if P.foldStr v = sResources then .error .snippet
      else
        match parseKV P v rest with
        | .error e => .error e
        | .ok ((tags, kv), rest') => parseBody P f rest' (acc ++ [.kv tags kv]) := rfl

theorem PB_nl {P : ParseCfg} {v : Str} {rest : List Tk} {acc : List Item} {x : List Item × List Tk}
    (h : PB P rest acc x) : PB P ((.newline, v) :: rest) acc x := by
  intro f hf
  cases f with
  | zero => omega
  | succ f => rw [pb_nl]; exact h f (by simp only [List.length_cons] at hf; omega)

theorem PB_close (P : ParseCfg) (v : Str) (rest : List Tk) (acc : List Item) :
    PB P ((.brackClose, v) :: rest) acc (acc, rest) := by
  intro f hf
  cases f with
  | zero => omega
  | succ f => rw [pb_close]

/-- The hypotheses on one line of the body. A keyvalue's name must not read as a keyword. -/
def ItemParseOK (P : ParseCfg) (c : ExpCfg) : Item → Prop
  | .kv tags k => KvParseOK P c tags k ∧ P.foldStr k.name ≠ sInput ∧ P.foldStr k.name ≠ sOutput ∧
      P.foldStr k.name ≠ sResources
  | .inp tags io => IoParseOK P c tags io ∧ P.foldStr sInput = sInput
  | .out tags io => IoParseOK P c tags io ∧ P.foldStr sOutput = sOutput

instance (P : ParseCfg) (c : ExpCfg) (it : Item) : Decidable (ItemParseOK P c it) := by
  cases it <;> (unfold ItemParseOK; infer_instance)

theorem kvToks_tail_length (c : ExpCfg) (tags : List Str) (k : KVRec) : 1 ≤ (kvToks c tags k).tail.length := by
  have := congrArg List.length (kvToks_tail c tags k [])
  simp only [List.append_nil, List.length_append, List.length_cons] at this
  omega

theorem PB_item {P : ParseCfg} {c : ExpCfg} {it : Item} (hit : ItemParseOK P c it) (tl : List Tk)
    (htl : tl.head?.map (·.1) ≠ some Kind.plus) (acc : List Item) (x : List Item × List Tk)
    (h : PB P tl (acc ++ [normItem P c it]) x) : PB P (itemToks c it ++ tl) acc x := by
  intro f hf
  cases f with
  | zero => omega
  | succ f =>
    cases it with
    | kv tags k =>
      obtain ⟨hk, h1, h2, h3⟩ := hit
      have e : itemToks c (.kv tags k) = (.string, k.name) :: (kvToks c tags k).tail := rfl
      rw [e] at hf ⊢
      rw [List.cons_append, pb_string, if_neg h1, if_neg h2, if_neg h3, parse_kv hk htl]
      simp only [normItem] at h
      have hlen := kvToks_tail_length c tags k
      simp only [List.length_cons, List.length_append] at hf
      unfold kvRest
      by_cases hl : k.typ = c.tt.spawnflags ∨ k.typ = c.tt.choices
      · rw [if_pos hl]
        cases f with
        | zero => omega
        | succ f' => simp only [tkNl, pb_nl]; exact h f' (by omega)
      · rw [if_neg hl]; exact h f (by omega)
    | inp tags io =>
      obtain ⟨hio, h1⟩ := hit
      have e : itemToks c (.inp tags io) = (.string, sInput) :: (ioToks c sInput tags io).tail := rfl
      rw [e] at hf ⊢
      rw [List.cons_append, pb_string, if_pos h1, parse_io hio htl]
      simp only [List.length_cons, List.length_append] at hf
      exact h f (by omega)
    | out tags io =>
      obtain ⟨hio, h1⟩ := hit
      have e : itemToks c (.out tags io) = (.string, sOutput) :: (ioToks c sOutput tags io).tail := rfl
      rw [e] at hf ⊢
      have hne : sOutput ≠ sInput := by decide
      rw [List.cons_append, pb_string, h1, if_neg hne, if_pos rfl, parse_io hio htl]
      simp only [List.length_cons, List.length_append] at hf
      exact h f (by omega)

theorem itemToks_head (c : ExpCfg) (it : Item) : ∃ v r, itemToks c it = (Kind.string, v) :: r := by
  cases it <;> exact ⟨_, _, rfl⟩

theorem head_lines' {β : Type} (toks : β → List Tk) (hs : ∀ b, ∃ v r, toks b = (Kind.string, v) :: r)
    (l : List β) (T : List Tk) (hT : T.head?.map (·.1) ≠ some Kind.plus) :
    (l.flatMap toks ++ T).head?.map (·.1) ≠ some Kind.plus := by
  cases l with
  | nil => simpa using hT
  | cons b l =>
    obtain ⟨w, r, hb⟩ := hs b
    simp [List.flatMap_cons, hb]

theorem PB_items {P : ParseCfg} {c : ExpCfg} (T : List Tk) (hT : T.head?.map (·.1) ≠ some Kind.plus)
    (x : List Item × List Tk) : ∀ (l : List Item) (acc : List Item),
    (∀ it ∈ l, ItemParseOK P c it) → PB P T (acc ++ l.map (normItem P c)) x →
    PB P (l.flatMap (itemToks c) ++ T) acc x := by
  intro l
  induction l with
  | nil => intro acc _ h; simpa using h
  | cons it l ih =>
    intro acc hl h
    rw [List.flatMap_cons, List.append_assoc]
    apply PB_item (hl it (List.mem_cons_self ..)) _ (head_lines' _ (itemToks_head c) l T hT)
    apply ih _ (fun g hg => hl g (List.mem_cons_of_mem _ hg))
    simpa [List.append_assoc] using h

/-- A block of inputs / outputs with its comment header (two line feeds), or nothing. -/
def sectionToks (c : ExpCfg) (l : List Item) : List Tk :=
  if l.isEmpty then [] else tkNl :: tkNl :: l.flatMap (itemToks c)

theorem PB_section {P : ParseCfg} {c : ExpCfg} (l : List Item) (hl : ∀ it ∈ l, ItemParseOK P c it)
    (T : List Tk) (hT : T.head?.map (·.1) ≠ some Kind.plus) (acc : List Item) (x : List Item × List Tk)
    (h : PB P T (acc ++ l.map (normItem P c)) x) : PB P (sectionToks c l ++ T) acc x := by
  unfold sectionToks
  cases l with
  | nil => simpa using h
  | cons it l =>
    simp only [List.isEmpty_cons, Bool.false_eq_true, if_false, List.cons_append, tkNl]
    exact PB_nl (PB_nl (PB_items T hT x _ acc hl h))

theorem sectionToks_head (c : ExpCfg) (l : List Item) (T : List Tk)
    (hT : T.head?.map (·.1) ≠ some Kind.plus) :
    (sectionToks c l ++ T).head?.map (·.1) ≠ some Kind.plus := by
  unfold sectionToks
  cases l with
  | nil => simpa using hT
  | cons it l => simp [tkNl]

/-- The lines in the order the writer emits them: keyvalues, inputs, outputs. -/
def bodyOrder (items : List Item) : List Item :=
  items.filter Item.isKV ++ items.filter Item.isInp ++ items.filter Item.isOut

theorem bodyToks_append (c : ExpCfg) (items : List Item) (rest : List Tk) :
    bodyToks c items ++ rest = (items.filter Item.isKV).flatMap (itemToks c) ++
      (sectionToks c (items.filter Item.isInp) ++ (sectionToks c (items.filter Item.isOut)
        ++ tkClose :: tkNl :: rest)) := by
  simp [bodyToks, sectionToks, List.append_assoc]

/-- **The body loop on the exported body** returns the normalised lines, stopping behind the `]`. -/
theorem parse_body {P : ParseCfg} {c : ExpCfg} {items : List Item} (rest : List Tk)
    (h : ∀ it ∈ items, ItemParseOK P c it) (fuel : Nat)
    (hfuel : (bodyToks c items ++ rest).length < fuel) :
    parseBody P fuel (bodyToks c items ++ rest) []
      = .ok ((bodyOrder items).map (normItem P c), tkNl :: rest) := by
  have hsub : ∀ p : Item → Bool, ∀ it ∈ items.filter p, ItemParseOK P c it :=
    fun p it hit => h it (List.mem_filter.mp hit).1
  have hclose : (tkClose :: tkNl :: rest).head?.map (·.1) ≠ some Kind.plus := by simp [tkClose]
  have h3 := sectionToks_head c (items.filter Item.isOut) _ hclose
  have h2 := sectionToks_head c (items.filter Item.isInp) _ h3
  have key : PB P (bodyToks c items ++ rest) [] ((bodyOrder items).map (normItem P c), tkNl :: rest) := by
    rw [bodyToks_append]
    apply PB_items _ h2 _ _ [] (hsub _)
    apply PB_section _ (hsub _) _ h3
    apply PB_section _ (hsub _) _ hclose
    have := PB_close P [']'] (tkNl :: rest) ((bodyOrder items).map (normItem P c))
    simpa [bodyOrder, tkClose, List.append_assoc] using this
  exact key fuel hfuel

/-- The form with the fuel a driver uses. -/
theorem parse_body_run {P : ParseCfg} {c : ExpCfg} {items : List Item} (rest : List Tk)
    (h : ∀ it ∈ items, ItemParseOK P c it) :
    parseBody P ((bodyToks c items ++ rest).length + 1) (bodyToks c items ++ rest) []
      = .ok ((bodyOrder items).map (normItem P c), tkNl :: rest) :=
  parse_body rest h _ (Nat.lt_succ_self _)


/-! ## convenience forms of the hypotheses -/

theorem effTags_ext {c : ExpCfg} (h : c.ext = true) (tags : List Str) : effTags c tags = tags := by
  simp [effTags, h]

/-- A flag whose mask is a power of two has a parsable mask. -/
theorem mask_pow2 (p : Nat) : 2 ^ p ≠ 0 ∧ 2 ^ Nat.log2 (2 ^ p) = 2 ^ p :=
  ⟨Nat.ne_of_gt (Nat.two_pow_pos p), by rw [Nat.log2_two_pow]⟩

theorem eraseDups_of_nodup : ∀ l : List Str, l.Nodup → l.eraseDups = l := by
  intro l
  induction l with
  | nil => intro _; rfl
  | cons a l ih =>
    intro h
    obtain ⟨h1, h2⟩ := List.nodup_cons.mp h
    have hf : l.filter (fun b => !b == a) = l := by
      apply List.filter_eq_self.mpr
      intro b hb
      have : b ≠ a := fun e => h1 (e ▸ hb)
      simp [this]
    rw [List.eraseDups_cons, hf, ih h2]

/-- `TagsParseOK` from the readable form: every tag is stable under fold-then-upper, the tag keys are distinct. -/
theorem TagsParseOK_of_nodup {P : ParseCfg} {c : ExpCfg} {tags : List Str}
    (h1 : ∀ t ∈ tags, P.upStr (tagFold P t) = t)
    (h2 : (tagKeys P (tags.map (tagFold P))).Nodup) : TagsParseOK P c tags := by
  intro _
  refine ⟨h1, ?_⟩
  rw [eraseDups_of_nodup _ h2]
  simp [tagKeys]

/-- `parse_kv` under `custom_syntax`, where the tags are read back as they are. -/
theorem parse_kv_ext {P : ParseCfg} {c : ExpCfg} {tags : List Str} {k : KVRec} {rest : List Tk}
    (hext : c.ext = true) (h : KvParseOK P c tags k) (hrest : rest.head?.map (·.1) ≠ some Kind.plus) :
    parseKV P k.name ((kvToks c tags k).tail ++ rest) = .ok ((tags, normKV P c k), kvRest c k rest) := by
  rw [parse_kv h hrest, effTags_ext hext]

theorem parse_io_ext {P : ParseCfg} {c : ExpCfg} {kw : Str} {tags : List Str} {io : IORec} {rest : List Tk}
    (hext : c.ext = true) (h : IoParseOK P c tags io) (hrest : rest.head?.map (·.1) ≠ some Kind.plus) :
    parseIO P ((ioToks c kw tags io).tail ++ rest) = .ok ((tags, normIO P c io), rest) := by
  rw [parse_io h hrest, effTags_ext hext]


/-! ## non-vacuity and the spawnflags finding (tiny concrete tables, identity case mappings) -/

/-- Decidable equality of parser results, for the evaluated examples only. -/
local instance exceptDecEq {ε α : Type} [DecidableEq ε] [DecidableEq α] : DecidableEq (Except ε α) :=
  fun a b =>
    match a, b with
    | .ok x, .ok y => if h : x = y then isTrue (h ▸ rfl) else isFalse (fun e => h (Except.ok.inj e))
    | .error x, .error y => if h : x = y then isTrue (h ▸ rfl) else isFalse (fun e => h (Except.error.inj e))
    | .ok _, .error _ => isFalse (by intro e; cases e)
    | .error _, .ok _ => isFalse (by intro e; cases e)

def pxTT : TypeTab :=
  { values := [['s', 't', 'r'], ['f', 'l', 'a', 'g', 's'], ['c', 'h', 'o', 'i', 'c', 'e', 's'], ['b', 'o', 'o', 'l']],
    lookup := [(['s', 't', 'r'], 0), (['f', 'l', 'a', 'g', 's'], 1), (['c', 'h', 'o', 'i', 'c', 'e', 's'], 2),
      (['b', 'o', 'o', 'l'], 3), (['v', 'o', 'i', 'd'], 4)],
    ioText := [['s', 't', 'r'], ['s', 't', 'r'], ['s', 't', 'r'], ['b', 'o', 'o', 'l'], ['v', 'o', 'i', 'd']],
    spawnflags := 1, choices := 2, bool := 3, ehandle := 5 }

def pxC : ExpCfg :=
  { long := { limit := 8, small := 2, backoff := true, emptyQuotes := true },
    T := { escapes := [('n', '\n'), ('t', '\t'), ('"', '"'), ('\\', '\\')], exclSingle := [],
           exclMulti := ['\n'], operators := [], bareDisallowed := [] },
    tt := pxTT, ext := true, label := true }

def pxP : ParseCfg := { tt := pxTT, fold := fun ch => [ch], up := fun ch => [ch] }

def pxTags : List Str := [['A'], ['+', 'B']]
def pxNoTags : List Str := []

/-- A string keyvalue with tags, `readonly`, a display name long enough to be split into several quoted
pieces, a quoted default and a description. -/
def pxKV : KVRec :=
  { name := ['k'], typ := 0, disp := ['D', 'i', 's', 'p', 'l', 'a', 'y', ' ', 'n', 'a', 'm', 'e', '"', 'x'],
    default := ['a', '\n', 'b'], desc := ['h', 'i'], vals := .none, readonly := true, reportable := false }

/-- A choices keyvalue and a spawnflags keyvalue (labelled flags, tags on a line). -/
def pxCh : KVRec :=
  { name := ['c'], typ := 2, disp := ['C'], default := ['1'], desc := [],
    vals := .choices [{ value := ['1'], name := ['o', 'n', 'e'], tags := [] },
                      { value := ['x', 'y'], name := ['t', 'w', 'o'], tags := [['T']] }],
    readonly := false, reportable := true }

def pxSf : KVRec :=
  { name := ['s', 'f'], typ := 1, disp := [], default := [], desc := [],
    vals := .flags [{ mask := 1, name := ['o', 'n', 'e'], dflt := true, tags := [] },
                    { mask := 16, name := ['l', 'o', 'n', 'g', ' ', 'f', 'l', 'a', 'g'], dflt := false, tags := [['T']] }],
    readonly := false, reportable := false }

/-- The hypotheses are satisfiable and the parser returns the normal form (evaluated). -/
example :
    KvParseOK pxP pxC pxTags pxKV ∧ (lsPieces pxC true pxKV.disp).length > 1 ∧
    parseKV pxP pxKV.name ((kvToks pxC pxTags pxKV).tail ++ [tkEof])
      = .ok ((pxTags, normKV pxP pxC pxKV), [tkEof]) ∧
    normKV pxP pxC pxKV = pxKV := by
  decide +kernel

example :
    KvParseOK pxP pxC pxNoTags pxCh ∧
    parseKV pxP pxCh.name ((kvToks pxC pxNoTags pxCh).tail ++ [tkEof])
      = .ok ((pxNoTags, normKV pxP pxC pxCh), [tkNl, tkEof]) := by
  decide +kernel

example :
    KvParseOK pxP pxC pxNoTags pxSf ∧
    parseKV pxP pxSf.name ((kvToks pxC pxNoTags pxSf).tail ++ [tkEof])
      = .ok ((pxNoTags, normKV pxP pxC pxSf), [tkNl, tkEof]) ∧
    (normKV pxP pxC pxSf).disp = pxSf.name ∧ (normKV pxP pxC pxSf).vals = pxSf.vals := by
  decide +kernel

example :
    let items := [Item.out [] { name := ['O'], typ := 4, desc := [] }, .kv pxTags pxKV,
      .inp [['A']] { name := ['I'], typ := 0, desc := ['d'] }, .kv [] pxSf]
    (∀ it ∈ items, ItemParseOK pxP pxC it) ∧
    parseBody pxP ((bodyToks pxC items ++ [tkEof]).length + 1) (bodyToks pxC items ++ [tkEof]) []
      = .ok ((bodyOrder items).map (normItem pxP pxC), [tkNl, tkEof]) := by
  decide +kernel

def pxSfDesc : KVRec :=
  { name := ['s', 'f'], typ := 1, disp := [], default := [], desc := ['h', 'i'], vals := .flags [],
    readonly := false, reportable := false }

def pxSfNoDesc : KVRec :=
  { name := ['s', 'f'], typ := 1, disp := [], default := [], desc := [], vals := .flags [],
    readonly := false, reportable := false }

/-- What the parser makes of the exported `pxSfDesc`. -/
def pxSfGarbled : KVRec :=
  { name := ['s', 'f'], typ := 1, disp := [], default := ['h', 'i'], desc := [], vals := .flags [],
    readonly := false, reportable := false }

/-- Finding `spawnflags-default-desc`: a spawnflags keyvalue WITH a description. The writer emits
`sf(flags) :  : "hi" =⏎[⏎]`, which the parser reads as display name `""`, DEFAULT `hi` and no description —
not the expected normal form (description `hi`, no default). Every other hypothesis of `parse_kv` holds. -/
theorem parse_kv_spawnflags_desc_garbled :
    pxSfDesc.typ = pxC.tt.spawnflags ∧ pxSfDesc.desc = ['h', 'i'] ∧
    KvParseOK pxP pxC pxNoTags pxSfNoDesc ∧
    parseKV pxP pxSfDesc.name ((kvToks pxC pxNoTags pxSfDesc).tail ++ [tkEof])
      = .ok ((pxNoTags, pxSfGarbled), [tkNl, tkEof]) ∧
    pxSfGarbled.default = pxSfDesc.desc ∧ pxSfGarbled.desc = [] ∧
    (normKV pxP pxC pxSfDesc).desc = pxSfDesc.desc ∧ (normKV pxP pxC pxSfDesc).default = [] ∧
    pxSfGarbled ≠ normKV pxP pxC pxSfDesc := by
  decide +kernel

end C16.KV
