import Srctools.Model.C11Lumps
import Srctools.Proofs.C11
/-!
# Proofs for the lumps with cross references (index level)

`faces_roundtrip`, `brushes_roundtrip`, `leafs_roundtrip`, `nodes_roundtrip`, `prims_roundtrip`, `texinfo_roundtrip`: what the writer (as
coded, with its `find_or_insert` / `find_or_extend` closures) emits is resolved by the reader, against
the tables after the writer or after any later appends, to the objects that were written.
-/
namespace C11
open StructCodec

/-! ## faces -/


theorem pyIdx_nat (l : List Nat) (n : Nat) : pyIdx l (n : Int) = l[n]? := by
  simp [pyIdx]

theorem map_idKey (l : List Nat) : l.map idKey = l := by
  induction l with
  | nil => rfl
  | cons x xs ih => simp [idKey, ih]

theorem idKey_inj : Function.Injective idKey := fun _ _ h => h

theorem slice_of_prefix {l L xs : List Nat} {i : Nat} (h : (l.drop i).take xs.length = xs) (hp : l <+: L) :
    pySlice L i xs.length = xs := by
  obtain ⟨t, rfl⟩ := hp
  unfold pySlice
  cases xs with
  | nil => simp
  | cons x xs' =>
    have hlen : ((l.drop i).take (x :: xs').length).length = (x :: xs').length := by rw [h]
    simp only [List.length_take, List.length_drop] at hlen
    have hi : i ≤ l.length := by simp at hlen; omega
    rw [List.drop_append_of_le_length hi, List.take_append_of_le_length (by simp at hlen ⊢; omega)]
    exact h

/-- a single reference handed out by a `find_or_insert` closure (identity key) resolves to the object
in every later state of the table -/
theorem finder_res (f : IdFinder) (hf : f.Inv idKey) (x : Nat) :
    (f.call idKey x).2.Inv idKey ∧ f.list <+: (f.call idKey x).2.list ∧
    ∀ L, (f.call idKey x).2.list <+: L → L[(f.call idKey x).1]? = some x := by
  have hs := Finder.call_spec idKey f hf x
  obtain ⟨⟨y, hy, hk⟩, hp, hi⟩ := hs
  have : y = x := hk
  subst this
  exact ⟨hi, hp, fun L hL => getElem?_of_prefix hL hy⟩

/-- a slice handed out by a `find_or_extend` closure (identity key, bounded) resolves to the list in
every later state of the table -/
theorem efinder_res (e : IdEFinder) (xs : List Nat) :
    e.list <+: (e.call true idKey xs).2.list ∧
    ∀ L, (e.call true idKey xs).2.list <+: L → pySlice L (e.call true idKey xs).1 xs.length = xs := by
  have hs := EFinder.call_spec idKey e xs
  obtain ⟨h1, h2⟩ := hs
  rw [map_idKey, map_idKey] at h1
  exact ⟨h2, fun L hL => slice_of_prefix h1 hL⟩

/-- component-wise "only appended to" -/
def FaceTabs.le (a b : FaceTabs) : Prop :=
  a.texinfo <+: b.texinfo ∧ a.planes <+: b.planes ∧ a.surfedges <+: b.surfedges ∧ a.prims <+: b.prims ∧
  a.origFaces <+: b.origFaces

theorem FaceTabs.le_refl (a : FaceTabs) : a.le a :=
  ⟨List.prefix_refl _, List.prefix_refl _, List.prefix_refl _, List.prefix_refl _, List.prefix_refl _⟩

theorem FaceTabs.le_trans {a b c : FaceTabs} (h1 : a.le b) (h2 : b.le c) : a.le c :=
  ⟨h1.1.trans h2.1, h1.2.1.trans h2.2.1, h1.2.2.1.trans h2.2.2.1, h1.2.2.2.1.trans h2.2.2.2.1,
   h1.2.2.2.2.trans h2.2.2.2.2⟩

def FaceSt.Inv (s : FaceSt) : Prop := s.fTex.Inv idKey ∧ s.fPlane.Inv idKey ∧ s.fOrig.Inv idKey

/-- well-formed faces: a split face (faces / hdr_faces lump) has an orig face, a texinfo and a
hammer id; a face of the orig-faces lump has none of them (the reader returns `None` there) -/
def FaceV.ok (useOrig : Bool) (f : FaceV) : Prop :=
  if useOrig then f.origFace.isSome ∧ f.texinfo.isSome ∧ f.hammerId.isSome
  else f.origFace = none ∧ f.texinfo = none ∧ f.hammerId = none

theorem writeFace_spec (uo : Bool) (s s1 : FaceSt) (f : FaceV) (r : List Val) (hs : s.Inv) (hok : f.ok uo)
    (h : writeFace true uo s f = .ok (r, s1)) :
    s1.Inv ∧ s.tabs.le s1.tabs ∧ s.hids <+: s1.hids ∧
    (uo = true → s1.hids = s.hids ++ [f.hammerId.getD 0]) ∧
    ∀ (final : FaceTabs) (hidsF : List Int), s1.tabs.le final → s1.hids <+: hidsF →
      readFace uo final hidsF s.hids.length r = .ok f := by
  obtain ⟨hT, hP, hO⟩ := hs
  obtain ⟨iP, pP, rP⟩ := finder_res s.fPlane hP f.plane
  obtain ⟨pE, rE⟩ := efinder_res s.eEdges f.edges
  obtain ⟨pQ, rQ⟩ := efinder_res s.ePrims f.prims
  by_cases hpc : 0x7fff < f.prims.length
  · simp [writeFace, hpc] at h
  by_cases hls : 4 < f.lightStyles.length
  · simp [writeFace, hpc, hls] at h
  have hdiv : (if f.dynShadows = true then f.prims.length else f.prims.length + 32768) % 32768 = f.prims.length := by
    split <;> omega
  have hdyn : ((if f.dynShadows = true then f.prims.length else f.prims.length + 32768) / 32768 % 2 == 0) = f.dynShadows := by
    cases hd : f.dynShadows
    · have : (f.prims.length + 32768) / 32768 = 1 := by omega
      simp [this]
    · have : f.prims.length / 32768 = 0 := by omega
      simp [this]
  cases uo with
  | true =>
    simp only [FaceV.ok, if_true] at hok
    obtain ⟨ho, ht, hh⟩ := hok
    obtain ⟨o, hoe⟩ := Option.isSome_iff_exists.mp ho
    obtain ⟨t, hte⟩ := Option.isSome_iff_exists.mp ht
    obtain ⟨hid, hhe⟩ := Option.isSome_iff_exists.mp hh
    obtain ⟨iO, pO, rO⟩ := finder_res s.fOrig hO o
    obtain ⟨iT, pT, rT⟩ := finder_res s.fTex hT t
    simp only [writeFace, hoe, hte, hhe, Option.getD_some, hpc, hls, if_false, Except.ok.injEq, Prod.mk.injEq] at h
    obtain ⟨hr, hs1⟩ := h
    subst hr; subst hs1
    refine ⟨⟨iT, iP, iO⟩, ⟨pT, pP, pE, pQ, pO⟩, List.prefix_append _ _, fun _ => by simp [hhe], ?_⟩
    intro final hidsF hle hh2
    obtain ⟨l1, l2, l3, l4, l5⟩ := hle
    simp only [FaceSt.tabs] at l1 l2 l3 l4 l5
    have hhid : hidsF[s.hids.length]? = some hid := by
      obtain ⟨tl, rfl⟩ := hh2
      simp
    simp only [readFace, pyIdx_nat, rP _ l2, rO _ l5, rT _ l1, Int.toNat_natCast, hhid]
    simp only [Int.toNat_natCast, hdiv, hdyn, rE _ l3, rQ _ l4]
    cases f; simp_all
  | false =>
    simp only [FaceV.ok, Bool.false_eq_true, if_false] at hok
    obtain ⟨ho, ht, hh⟩ := hok
    simp only [writeFace, ho, ht, hpc, hls, if_false, Except.ok.injEq, Prod.mk.injEq] at h
    obtain ⟨hr, hs1⟩ := h
    subst hr; subst hs1
    refine ⟨⟨hT, iP, hO⟩, ⟨List.prefix_refl _, pP, pE, pQ, List.prefix_refl _⟩, List.prefix_refl _,
      fun hc => Bool.noConfusion hc, ?_⟩
    intro final hidsF hle hh2
    obtain ⟨l1, l2, l3, l4, l5⟩ := hle
    simp only [FaceSt.tabs] at l1 l2 l3 l4 l5
    simp only [readFace, pyIdx_nat, rP _ l2, Int.toNat_natCast]
    simp only [Int.toNat_natCast, hdiv, hdyn, rE _ l3, rQ _ l4]
    cases f; simp_all


theorem writeFacesAux_spec (uo : Bool) : ∀ (fs : List FaceV) (s s' : FaceSt) (recs : List (List Val)),
    s.Inv → (∀ f ∈ fs, f.ok uo) → writeFacesAux true uo s fs = .ok (recs, s') →
    s'.Inv ∧ s.tabs.le s'.tabs ∧ s.hids <+: s'.hids ∧
    ∀ (final : FaceTabs) (hidsF : List Int), s'.tabs.le final → s'.hids <+: hidsF →
      readFacesFrom uo final hidsF (if uo then s.hids.length else 0) recs = .ok fs := by
  intro fs
  induction fs with
  | nil =>
    intro s s' recs hs _ h
    simp only [writeFacesAux, Except.ok.injEq, Prod.mk.injEq] at h
    obtain ⟨rfl, rfl⟩ := h
    exact ⟨hs, FaceTabs.le_refl _, List.prefix_refl _, fun _ _ _ _ => rfl⟩
  | cons f fs ih =>
    intro s s' recs hs hok h
    simp only [writeFacesAux] at h
    cases h1 : writeFace true uo s f with
    | error e => simp [h1] at h
    | ok p =>
      obtain ⟨r, s1⟩ := p
      simp only [h1] at h
      cases h2 : writeFacesAux true uo s1 fs with
      | error e => simp [h2] at h
      | ok q =>
        obtain ⟨rs, s2⟩ := q
        simp only [h2, Except.ok.injEq, Prod.mk.injEq] at h
        obtain ⟨rfl, rfl⟩ := h
        obtain ⟨i1, le1, hp1, hh1, rd1⟩ := writeFace_spec uo s s1 f r hs (hok f (by simp)) h1
        obtain ⟨i2, le2, hp2, rd2⟩ := ih s1 s2 rs i1 (fun x hx => hok x (by simp [hx])) h2
        refine ⟨i2, FaceTabs.le_trans le1 le2, hp1.trans hp2, ?_⟩
        intro final hidsF hle hh
        have r1 := rd1 final hidsF (FaceTabs.le_trans le2 hle) (hp2.trans hh)
        have r2 := rd2 final hidsF hle hh
        cases uo with
        | true =>
          simp only [if_true] at r2 ⊢
          rw [hh1 rfl] at r2
          simp only [List.length_append, List.length_singleton] at r2
          simp only [readFacesFrom, r1, r2]
        | false =>
          simp only [Bool.false_eq_true, if_false] at r2 ⊢
          -- the reader ignores the index when there are no orig faces
          have hidx : ∀ i j, readFace false final hidsF i r = readFace false final hidsF j r := by
            intro i j; unfold readFace; rfl
          have hidxs : ∀ (rs : List (List Val)) i j, readFacesFrom false final hidsF i rs = readFacesFrom false final hidsF j rs := by
            intro rs
            induction rs with
            | nil => intro i j; rfl
            | cons x xs ihx =>
              intro i j
              simp only [readFacesFrom]
              have : readFace false final hidsF i x = readFace false final hidsF j x := by unfold readFace; rfl
              rw [this, ihx (i + 1) (j + 1)]
          simp only [readFacesFrom, hidx 0 s.hids.length, r1, hidxs rs 1 0, r2]

theorem FaceSt.init_inv (t : FaceTabs) : (FaceSt.init t).Inv :=
  ⟨Finder.mk'_inv idKey _, Finder.mk'_inv idKey _, Finder.mk'_inv idKey _⟩

/-- **Faces lump (index level).** What `_write_faces_common` writes for well-formed faces is read
back by `_read_faces_common`, against the tables as they are after this writer or after any later
appends to them, as the same faces: same plane / texinfo / orig-face objects, the same edge and
primitive lists. -/
theorem faces_roundtrip (uo : Bool) (t t' final : FaceTabs) (fs : List FaceV) (recs : List (List Val)) (hids : List Int)
    (hok : ∀ f ∈ fs, f.ok uo) (h : writeFaces true uo t fs = .ok (recs, hids, t')) (hle : t'.le final) :
    readFaces uo final hids recs = .ok fs ∧ t.le t' := by
  unfold writeFaces at h
  cases h1 : writeFacesAux true uo (FaceSt.init t) fs with
  | error e => simp [h1] at h
  | ok p =>
    obtain ⟨rs, s⟩ := p
    simp only [h1, Except.ok.injEq, Prod.mk.injEq] at h
    obtain ⟨rfl, rfl, rfl⟩ := h
    obtain ⟨_, le, _, rd⟩ := writeFacesAux_spec uo fs _ s rs (FaceSt.init_inv t) hok h1
    have := rd final s.hids hle (List.prefix_refl _)
    have hinit : (FaceSt.init t).tabs = t := by cases t; rfl
    refine ⟨?_, by rw [← hinit]; exact le⟩
    unfold readFaces
    cases uo <;> simpa [FaceSt.init] using this


/-! ## brushes -/


theorem one_or_even (b : Nat) (h : b % 2 = 0) : 1 ||| b = b + 1 := by
  have h1 : (1 ||| b) % 2 = 1 := by simp [Nat.or_mod_two_eq_one]
  have h2 : (1 ||| b) / 2 = b / 2 := by
    rw [Nat.or_div_two]; simp
  omega

theorem pyIdx_nat' (l : List Nat) (n : Nat) : pyIdx l (n : Int) = l[n]? := by simp [pyIdx]

theorem finder_res' (f : IdFinder) (hf : f.Inv idKey) (x : Nat) :
    (f.call idKey x).2.Inv idKey ∧ f.list <+: (f.call idKey x).2.list ∧
    ∀ L, (f.call idKey x).2.list <+: L → L[(f.call idKey x).1]? = some x := by
  have hs := Finder.call_spec idKey f hf x
  obtain ⟨⟨y, hy, hk⟩, hp, hi⟩ := hs
  have : y = x := hk
  subst this
  exact ⟨hi, hp, fun L hL => getElem?_of_prefix hL hy⟩

/-- well-formed side: outside VitaminSource the unknown bevel bits do not use bit 0 -/
def SideV.ok (vitamin : Bool) (s : SideV) : Prop := vitamin = true ∨ s.bits % 2 = 0

theorem readSide_bevel (s : SideV) (h : s.bits % 2 = 0) :
    ((bevelField s) % 2 == 1) = s.bevel ∧ bevelField s - bevelField s % 2 = s.bits := by
  unfold bevelField
  cases hb : s.bevel
  · simp; omega
  · simp only [if_true]
    rw [one_or_even _ h]
    constructor
    · simp; omega
    · omega

theorem writeSideRecs_spec (vit : Bool) (sd : Nat → SideV) (hsd : ∀ x, (sd x).ok vit) :
    ∀ (xs : List Nat) (fp ft : IdFinder), fp.Inv idKey → ft.Inv idKey →
    fp.list <+: (writeSideRecs vit sd fp ft xs).2.1.list ∧ ft.list <+: (writeSideRecs vit sd fp ft xs).2.2.list ∧
    ∀ (final : BrushTabs), (writeSideRecs vit sd fp ft xs).2.1.list <+: final.planes →
      (writeSideRecs vit sd fp ft xs).2.2.list <+: final.texinfo →
      readSides vit final (writeSideRecs vit sd fp ft xs).1 = .ok (xs.map sd) := by
  intro xs
  induction xs with
  | nil => intro fp ft _ _; exact ⟨List.prefix_refl _, List.prefix_refl _, fun _ _ _ => rfl⟩
  | cons x xs ih =>
    intro fp ft hp ht
    obtain ⟨ip, pp, rp⟩ := finder_res' fp hp (sd x).plane
    obtain ⟨it, pt, rt⟩ := finder_res' ft ht (sd x).texinfo
    obtain ⟨q1, q2, rd⟩ := ih _ _ ip it
    simp only [writeSideRecs]
    refine ⟨pp.trans q1, pt.trans q2, ?_⟩
    intro final h1 h2
    have r1 := rp final.planes (q1.trans h1)
    have r2 := rt final.texinfo (q2.trans h2)
    have r3 := rd final h1 h2
    cases vit with
    | true =>
      have hbv : ((if (sd x).bevel = true then (1 : Int) else 0) != 0) = (sd x).bevel := by
        cases (sd x).bevel <;> simp
      simp only [readSides, readSide, if_true, pyIdx_nat', r1, r2, r3, Int.toNat_natCast, List.map_cons, hbv]
    | false =>
      have hbits : (sd x).bits % 2 = 0 := by
        rcases hsd x with h | h
        · cases h
        · exact h
      obtain ⟨b1, b2⟩ := readSide_bevel (sd x) hbits
      simp only [readSides, readSide, Bool.false_eq_true, if_false, pyIdx_nat', r1, r2, r3, Int.toNat_natCast,
        List.map_cons, b1, b2]

theorem slice_of_prefix' {l L xs : List Nat} {i : Nat} (h : (l.drop i).take xs.length = xs) (hp : l <+: L) :
    (L.drop i).take xs.length = xs := by
  obtain ⟨t, rfl⟩ := hp
  cases xs with
  | nil => simp
  | cons x xs' =>
    have hlen : ((l.drop i).take (x :: xs').length).length = (x :: xs').length := by rw [h]
    simp only [List.length_take, List.length_drop] at hlen
    have hi : i ≤ l.length := by simp at hlen; omega
    rw [List.drop_append_of_le_length hi, List.take_append_of_le_length (by simp at hlen ⊢; omega)]
    exact h

theorem map_idKey' (l : List Nat) : l.map idKey = l := by
  induction l with
  | nil => rfl
  | cons x xs ih => simp [idKey, ih]

theorem writeBrushRecs_spec (sd : Nat → SideV) : ∀ (bs : List BrushV) (e : IdEFinder),
    e.list <+: (writeBrushRecs true e bs).2.list ∧
    ∀ (L : List Nat), (writeBrushRecs true e bs).2.list <+: L →
      readBrushRecs (L.map sd) (writeBrushRecs true e bs).1 = .ok (bs.map fun b => (b.contents, b.sides.map sd)) := by
  intro bs
  induction bs with
  | nil => intro e; exact ⟨List.prefix_refl _, fun _ _ => rfl⟩
  | cons b bs ih =>
    intro e
    obtain ⟨h1, h2⟩ := EFinder.call_spec idKey e b.sides
    rw [map_idKey', map_idKey'] at h1
    obtain ⟨q, rd⟩ := ih (e.call true idKey b.sides).2
    simp only [writeBrushRecs]
    refine ⟨h2.trans q, ?_⟩
    intro L hL
    have hs := slice_of_prefix' h1 (q.trans hL)
    simp only [readBrushRecs, readBrushRec, Int.toNat_natCast, rd L hL, List.map_cons]
    rw [← List.map_drop, ← List.map_take, hs]

/-- **Brushes + brush sides (index level).** -/
theorem brushes_roundtrip (vit : Bool) (sd : Nat → SideV) (hsd : ∀ x, (sd x).ok vit) (t final : BrushTabs)
    (bs : List BrushV)
    (hp : (writeBrushes true vit sd t bs).2.2.planes <+: final.planes)
    (ht : (writeBrushes true vit sd t bs).2.2.texinfo <+: final.texinfo) :
    readBrushes vit final (writeBrushes true vit sd t bs).1 (writeBrushes true vit sd t bs).2.1
      = .ok (bs.map fun b => (b.contents, b.sides.map sd)) ∧
    t.planes <+: (writeBrushes true vit sd t bs).2.2.planes ∧ t.texinfo <+: (writeBrushes true vit sd t bs).2.2.texinfo := by
  obtain ⟨_, rdB⟩ := writeBrushRecs_spec sd bs (EFinder.mk' idKey [])
  obtain ⟨p1, p2, rdS⟩ := writeSideRecs_spec vit sd hsd (writeBrushRecs true (EFinder.mk' idKey []) bs).2.list
    (Finder.mk' idKey t.planes) (Finder.mk' idKey t.texinfo) (Finder.mk'_inv _ _) (Finder.mk'_inv _ _)
  refine ⟨?_, p1, p2⟩
  unfold readBrushes
  simp only [writeBrushes] at hp ht ⊢
  rw [rdS final hp ht]
  exact rdB _ (List.prefix_refl _)


/-! ## leafs -/


theorem finder_res'' (f : IdFinder) (hf : f.Inv idKey) (x : Nat) :
    (f.call idKey x).2.Inv idKey ∧ f.list <+: (f.call idKey x).2.list ∧
    ∀ L, (f.call idKey x).2.list <+: L → L[(f.call idKey x).1]? = some x := by
  have hs := Finder.call_spec idKey f hf x
  obtain ⟨⟨y, hy, hk⟩, hp, hi⟩ := hs
  have : y = x := hk
  subst this
  exact ⟨hi, hp, fun L hL => getElem?_of_prefix hL hy⟩

/-- `map(add_x, xs)`: every index resolves to its object in every later state of the table -/
theorem callAll_res : ∀ (xs : List Nat) (f : IdFinder), f.Inv idKey →
    (Finder.callAll idKey f xs).2.Inv idKey ∧ f.list <+: (Finder.callAll idKey f xs).2.list ∧
    (Finder.callAll idKey f xs).1.length = xs.length ∧
    ∀ L, (Finder.callAll idKey f xs).2.list <+: L → resolveArr L (Finder.callAll idKey f xs).1 = .ok xs := by
  intro xs
  induction xs with
  | nil => intro f hf; exact ⟨hf, List.prefix_refl _, rfl, fun _ _ => rfl⟩
  | cons x xs ih =>
    intro f hf
    obtain ⟨i1, p1, r1⟩ := finder_res'' f hf x
    obtain ⟨i2, p2, l2, r2⟩ := ih _ i1
    simp only [Finder.callAll]
    refine ⟨i2, p1.trans p2, by simp [l2], ?_⟩
    intro L hL
    simp only [resolveArr, r1 L (p2.trans hL), r2 L hL]

theorem resolveArr_append (L a b xa xb : List Nat) (ha : resolveArr L a = .ok xa) (hb : resolveArr L b = .ok xb) :
    resolveArr L (a ++ b) = .ok (xa ++ xb) := by
  induction a generalizing xa with
  | nil => simp [resolveArr] at ha; subst ha; simpa using hb
  | cons i is ih =>
    simp only [resolveArr] at ha
    cases h1 : L[i]? with
    | none => simp [h1] at ha
    | some x =>
      cases h2 : resolveArr L is with
      | error e => simp [h1, h2] at ha
      | ok xs =>
        simp only [h1, h2, Except.ok.injEq] at ha
        subst ha
        simp only [List.cons_append, resolveArr, h1, ih xs h2]

theorem pySlice_mid (pre mid post : List Nat) : pySlice (pre ++ (mid ++ post)) pre.length mid.length = mid := by
  simp [pySlice]

/-- `(area << off | flags)` is undone by `>> off` and `& ((1 << off) - 1)` when the flags fit -/
theorem area_flags (a f off : Nat) (h : f < 2 ^ off) :
    ((a <<< off) ||| f) >>> off = a ∧ ((a <<< off) ||| f) &&& (1 <<< off - 1) = f := by
  have e : (a <<< off) ||| f = a <<< off + f := (Nat.shiftLeft_add_eq_or_of_lt h a).symm
  rw [e, Nat.shiftLeft_eq, Nat.shiftRight_eq_div_pow, Nat.one_shiftLeft, Nat.and_two_pow_sub_one_eq_mod]
  have hp : 0 < 2 ^ off := Nat.pos_of_ne_zero (by simp)
  constructor
  · rw [Nat.add_comm, Nat.add_mul_div_right _ _ hp, Nat.div_eq_of_lt h]; simp
  · rw [Nat.add_comm, Nat.add_mul_mod_self_right, Nat.mod_eq_of_lt h]

/-- well-formed leaf for a layout -/
def LeafV.ok (c : LeafCfg) (l : LeafV) : Prop :=
  (c.vitamin = false → l.flags < 2 ^ c.areaOff) ∧
  ((c.vitamin = true ∨ c.hasAmbient = false) → l.ambient = zeros24)

def LeafSt.Inv (s : LeafSt) : Prop := s.fFace.Inv idKey ∧ s.fBrush.Inv idKey

theorem writeLeaf_read (c : LeafCfg) (s : LeafSt) (l : LeafV) (hl : l.ok c)
    (preF postF preB postB : List Nat) (hF : preF.length = s.leafFaces.length) (hB : preB.length = s.leafBrushes.length) :
    readLeaf c (preF ++ (l.faces ++ postF)) (preB ++ (l.brushes ++ postB)) (writeLeaf c s l).1 l.minDist = .ok l := by
  obtain ⟨hfl, hamb⟩ := hl
  have sF := pySlice_mid preF l.faces postF
  have sB := pySlice_mid preB l.brushes postB
  rw [hF] at sF
  rw [hB] at sB
  cases hv : c.vitamin with
  | true =>
    have := hamb (Or.inl hv)
    simp only [writeLeaf, readLeaf, hv, if_true, Int.toNat_natCast, sF, sB]
    cases l; simp_all
  | false =>
    obtain ⟨a1, a2⟩ := area_flags l.area l.flags c.areaOff (hfl hv)
    cases ha : c.hasAmbient with
    | true =>
      simp only [writeLeaf, readLeaf, hv, ha, Bool.false_eq_true, if_false, if_true, List.cons_append, List.nil_append,
        Int.toNat_natCast, sF, sB, a1, a2]
    | false =>
      have := hamb (Or.inr ha)
      simp only [writeLeaf, readLeaf, hv, ha, Bool.false_eq_true, if_false, List.append_nil,
        Int.toNat_natCast, sF, sB, a1, a2]
      cases l; simp_all

theorem writeLeafsAux_spec (c : LeafCfg) : ∀ (ls : List LeafV) (s : LeafSt), s.Inv → (∀ l ∈ ls, l.ok c) →
    (writeLeafsAux c s ls).2.Inv ∧
    s.fFace.list <+: (writeLeafsAux c s ls).2.fFace.list ∧ s.fBrush.list <+: (writeLeafsAux c s ls).2.fBrush.list ∧
    (writeLeafsAux c s ls).2.dists = s.dists ++ ls.map (·.minDist) ∧
    ∃ newF newB, (writeLeafsAux c s ls).2.leafFaces = s.leafFaces ++ newF ∧
      (writeLeafsAux c s ls).2.leafBrushes = s.leafBrushes ++ newB ∧
      ∀ (final : LeafTabs), (writeLeafsAux c s ls).2.fFace.list <+: final.faces →
        (writeLeafsAux c s ls).2.fBrush.list <+: final.brushes →
        ∃ objF objB, resolveArr final.faces newF = .ok objF ∧ resolveArr final.brushes newB = .ok objB ∧
          ∀ (preF postF preB postB : List Nat) (ds : List Int), preF.length = s.leafFaces.length →
            preB.length = s.leafBrushes.length →
            readLeafRecs c (preF ++ (objF ++ postF)) (preB ++ (objB ++ postB)) (writeLeafsAux c s ls).1
              (ls.map (·.minDist) ++ ds) = .ok ls := by
  intro ls
  induction ls with
  | nil =>
    intro s hs _
    refine ⟨hs, List.prefix_refl _, List.prefix_refl _, by simp [writeLeafsAux], [], [], by simp [writeLeafsAux],
      by simp [writeLeafsAux], ?_⟩
    intro final _ _
    refine ⟨[], [], rfl, rfl, ?_⟩
    intro preF postF preB postB ds _ _
    cases ds <;> simp [writeLeafsAux, readLeafRecs]
  | cons l ls ih =>
    intro s hs hok
    obtain ⟨hF, hB⟩ := hs
    obtain ⟨iF, pF, lF, rF⟩ := callAll_res l.faces s.fFace hF
    obtain ⟨iB, pB, lB, rB⟩ := callAll_res l.brushes s.fBrush hB
    have hs1 : (writeLeaf c s l).2.Inv := by
      unfold writeLeaf; split <;> exact ⟨iF, iB⟩
    have e1 : (writeLeaf c s l).2 = LeafSt.mk (Finder.callAll idKey s.fFace l.faces).2
        (Finder.callAll idKey s.fBrush l.brushes).2
        (s.leafFaces ++ (Finder.callAll idKey s.fFace l.faces).1)
        (s.leafBrushes ++ (Finder.callAll idKey s.fBrush l.brushes).1)
        (s.dists ++ [l.minDist]) := by
      unfold writeLeaf; split <;> rfl
    obtain ⟨i2, p2F, p2B, d2, nF, nB, eF, eB, rd⟩ := ih (writeLeaf c s l).2 hs1 (fun x hx => hok x (by simp [hx]))
    simp only [writeLeafsAux]
    have hf1 : (writeLeaf c s l).2.fFace = (Finder.callAll idKey s.fFace l.faces).2 := by rw [e1]
    have hf2 : (writeLeaf c s l).2.fBrush = (Finder.callAll idKey s.fBrush l.brushes).2 := by rw [e1]
    have hf3 : (writeLeaf c s l).2.leafFaces = s.leafFaces ++ (Finder.callAll idKey s.fFace l.faces).1 := by rw [e1]
    have hf4 : (writeLeaf c s l).2.leafBrushes = s.leafBrushes ++ (Finder.callAll idKey s.fBrush l.brushes).1 := by rw [e1]
    have hf5 : (writeLeaf c s l).2.dists = s.dists ++ [l.minDist] := by rw [e1]
    rw [hf1] at p2F
    rw [hf2] at p2B
    rw [hf5] at d2
    rw [hf3] at eF
    rw [hf4] at eB
    refine ⟨i2, pF.trans p2F, pB.trans p2B, by simp [d2], (Finder.callAll idKey s.fFace l.faces).1 ++ nF,
      (Finder.callAll idKey s.fBrush l.brushes).1 ++ nB, by simp [eF], by simp [eB], ?_⟩
    intro final hfF hfB
    obtain ⟨oF, oB, roF, roB, rdl⟩ := rd final hfF hfB
    refine ⟨l.faces ++ oF, l.brushes ++ oB,
      resolveArr_append _ _ _ _ _ (rF _ (p2F.trans hfF)) roF,
      resolveArr_append _ _ _ _ _ (rB _ (p2B.trans hfB)) roB, ?_⟩
    intro preF postF preB postB ds hpF hpB
    simp only [List.map_cons, List.cons_append, readLeafRecs]
    have h1 := writeLeaf_read c s l (hok l (by simp)) preF (oF ++ postF) preB (oB ++ postB) hpF hpB
    simp only [List.append_assoc] at h1 ⊢
    rw [h1]
    have h2 := rdl (preF ++ l.faces) postF (preB ++ l.brushes) postB ds
      (by rw [hf3]; simp [hpF, lF]) (by rw [hf4]; simp [hpB, lB])
    simp only [List.append_assoc] at h2
    rw [h2]

/-- **Leafs + leaf faces + leaf brushes (index level).** -/
theorem leafs_roundtrip (c : LeafCfg) (t final : LeafTabs) (ls : List LeafV) (hok : ∀ l ∈ ls, l.ok c)
    (hF : (writeLeafs c t ls).2.2.2.2.faces <+: final.faces)
    (hB : (writeLeafs c t ls).2.2.2.2.brushes <+: final.brushes) :
    readLeafs c final (writeLeafs c t ls).1 (writeLeafs c t ls).2.1 (writeLeafs c t ls).2.2.1 (writeLeafs c t ls).2.2.2.1
      = .ok ls ∧
    t.faces <+: (writeLeafs c t ls).2.2.2.2.faces ∧ t.brushes <+: (writeLeafs c t ls).2.2.2.2.brushes := by
  obtain ⟨_, pF, pB, hd, nF, nB, eF, eB, rd⟩ := writeLeafsAux_spec c ls
    { fFace := Finder.mk' idKey t.faces, fBrush := Finder.mk' idKey t.brushes, leafFaces := [], leafBrushes := [], dists := [] }
    ⟨Finder.mk'_inv _ _, Finder.mk'_inv _ _⟩ hok
  simp only [writeLeafs] at hF hB ⊢
  obtain ⟨oF, oB, roF, roB, rdl⟩ := rd final hF hB
  refine ⟨?_, pF, pB⟩
  unfold readLeafs
  simp only [List.nil_append] at eF eB hd
  rw [eF, eB, hd, roF, roB]
  have := rdl [] [] [] [] [] rfl rfl
  simpa using this


/-! ## nodes -/


theorem finder_resN (f : IdFinder) (hf : f.Inv idKey) (x : Nat) :
    (f.call idKey x).2.Inv idKey ∧ f.list <+: (f.call idKey x).2.list ∧
    ∀ L, (f.call idKey x).2.list <+: L → L[(f.call idKey x).1]? = some x := by
  have hs := Finder.call_spec idKey f hf x
  obtain ⟨⟨y, hy, hk⟩, hp, hi⟩ := hs
  have : y = x := hk
  subst this
  exact ⟨hi, hp, fun L hL => getElem?_of_prefix hL hy⟩

theorem map_idKeyN (l : List Nat) : l.map idKey = l := by
  induction l with
  | nil => rfl
  | cons x xs ih => simp [idKey, ih]

theorem slice_of_prefixN {l L xs : List Nat} {i : Nat} (h : (l.drop i).take xs.length = xs) (hp : l <+: L) :
    pySlice L i xs.length = xs := by
  obtain ⟨t, rfl⟩ := hp
  unfold pySlice
  cases xs with
  | nil => simp
  | cons x xs' =>
    have hlen : ((l.drop i).take (x :: xs').length).length = (x :: xs').length := by rw [h]
    simp only [List.length_take, List.length_drop] at hlen
    have hi : i ≤ l.length := by simp at hlen; omega
    rw [List.drop_append_of_le_length hi, List.take_append_of_le_length (by simp at hlen ⊢; omega)]
    exact h

theorem pyIdx_natN (l : List Nat) (n : Nat) : pyIdx l (n : Int) = l[n]? := by simp [pyIdx]

theorem childIdx_spec (fN fL : IdFinder) (hN : fN.Inv idKey) (hL : fL.Inv idKey) (c : ChildV) :
    (childIdx fN fL c).2.1.Inv idKey ∧ (childIdx fN fL c).2.2.Inv idKey ∧
    fN.list <+: (childIdx fN fL c).2.1.list ∧ fL.list <+: (childIdx fN fL c).2.2.list ∧
    ∀ (t : NodeTabs) (N : List Nat), (childIdx fN fL c).2.1.list <+: N → (childIdx fN fL c).2.2.list <+: t.leafs →
      readChild t N (childIdx fN fL c).1 = some c := by
  cases c with
  | leaf l =>
    obtain ⟨i1, p1, r1⟩ := finder_resN fL hL l
    refine ⟨hN, i1, List.prefix_refl _, p1, ?_⟩
    intro t N _ hl
    have hneg : (-(((fL.call idKey l).1 : Nat) + 1 : Int)) < 0 := by omega
    have hidx : (-1 - (-(((fL.call idKey l).1 : Nat) + 1 : Int))).toNat = (fL.call idKey l).1 := by omega
    simp only [childIdx, readChild, hneg, if_true, hidx, r1 _ hl, Option.map_some]
  | node c =>
    obtain ⟨i1, p1, r1⟩ := finder_resN fN hN c
    refine ⟨i1, hL, p1, List.prefix_refl _, ?_⟩
    intro t N hn _
    have hnn : ¬ ((((fN.call idKey c).1 : Nat) : Int) < 0) := by omega
    simp only [childIdx, readChild, hnn, if_false, Int.toNat_natCast, r1 _ hn, Option.map_some]

def NodeSt.Inv (s : NodeSt) : Prop := s.fNode.Inv idKey ∧ s.fPlane.Inv idKey ∧ s.fLeaf.Inv idKey

def NodeSt.le (a b : NodeSt) : Prop :=
  a.fNode.list <+: b.fNode.list ∧ a.fPlane.list <+: b.fPlane.list ∧ a.fLeaf.list <+: b.fLeaf.list ∧
  a.eFaces.list <+: b.eFaces.list

theorem NodeSt.le_trans {a b c : NodeSt} (h1 : a.le b) (h2 : b.le c) : a.le c :=
  ⟨h1.1.trans h2.1, h1.2.1.trans h2.2.1, h1.2.2.1.trans h2.2.2.1, h1.2.2.2.trans h2.2.2.2⟩

/-- the final tables extend those of a writer state -/
def NodeSt.within (s : NodeSt) (t : NodeTabs) (N : List Nat) : Prop :=
  s.fNode.list <+: N ∧ s.fPlane.list <+: t.planes ∧ s.fLeaf.list <+: t.leafs ∧ s.eFaces.list <+: t.faces

theorem writeNode_spec (s : NodeSt) (hs : s.Inv) (n : NodeV) :
    (writeNode true s n).2.Inv ∧ s.le (writeNode true s n).2 ∧
    ∀ (t : NodeTabs) (N : List Nat), (writeNode true s n).2.within t N → readNode t N (writeNode true s n).1 = .ok n := by
  obtain ⟨hN, hP, hL⟩ := hs
  obtain ⟨a1, a2, a3, a4, a5⟩ := childIdx_spec s.fNode s.fLeaf hN hL n.pos
  obtain ⟨b1, b2, b3, b4, b5⟩ := childIdx_spec _ _ a1 a2 n.neg
  obtain ⟨c1, c2, c3⟩ := finder_resN s.fPlane hP n.plane
  obtain ⟨d1, d2⟩ := EFinder.call_spec idKey s.eFaces n.faces
  rw [map_idKeyN, map_idKeyN] at d1
  refine ⟨⟨b1, c1, b2⟩, ⟨a3.trans b3, c2, a4.trans b4, d2⟩, ?_⟩
  intro t N hw
  obtain ⟨w1, w2, w3, w4⟩ := hw
  simp only [writeNode] at w1 w2 w3 w4
  have r1 := a5 t N (b3.trans w1) (b4.trans w3)
  have r2 := b5 t N w1 w3
  have r3 := c3 t.planes w2
  have r4 := slice_of_prefixN d1 w4
  simp only [writeNode, readNode, pyIdx_natN, r1, r2, r3, Int.toNat_natCast, r4]

theorem writeNodesAux_spec (nd : Nat → NodeV) : ∀ (fuel k : Nat) (s s' : NodeSt) (recs : List (List Val)),
    s.Inv → writeNodesAux true nd fuel k s = some (recs, s') →
    s'.Inv ∧ s.le s' ∧
    ∀ (t : NodeTabs) (N : List Nat), s'.within t N → readNodes t N recs = .ok ((s'.fNode.list.drop k).map nd) := by
  intro fuel
  induction fuel with
  | zero =>
    intro k s s' recs hs h
    simp only [writeNodesAux] at h
    split at h
    · rename_i hk
      injection h with h; injection h with h1 h2; subst h1; subst h2
      refine ⟨hs, ⟨List.prefix_refl _, List.prefix_refl _, List.prefix_refl _, List.prefix_refl _⟩, ?_⟩
      intro t N _
      simp [List.drop_eq_nil_of_le hk, readNodes]
    · cases h
  | succ fuel ih =>
    intro k s s' recs hs h
    simp only [writeNodesAux] at h
    cases hx : s.fNode.list[k]? with
    | none =>
      simp only [hx] at h
      injection h with h; injection h with h1 h2; subst h1; subst h2
      refine ⟨hs, ⟨List.prefix_refl _, List.prefix_refl _, List.prefix_refl _, List.prefix_refl _⟩, ?_⟩
      intro t N _
      have hk : s.fNode.list.length ≤ k := by
        rcases Nat.lt_or_ge k s.fNode.list.length with h | h
        · rw [List.getElem?_eq_getElem h] at hx; cases hx
        · exact h
      simp [List.drop_eq_nil_of_le hk, readNodes]
    | some x =>
      simp only [hx] at h
      cases hr : writeNodesAux true nd fuel (k + 1) (writeNode true s (nd x)).2 with
      | none => simp [hr] at h
      | some p =>
        obtain ⟨rs, s2⟩ := p
        simp only [hr, Option.some.injEq, Prod.mk.injEq] at h
        obtain ⟨rfl, rfl⟩ := h
        obtain ⟨i1, le1, rd1⟩ := writeNode_spec s hs (nd x)
        obtain ⟨i2, le2, rd2⟩ := ih (k + 1) _ s2 rs i1 hr
        refine ⟨i2, NodeSt.le_trans le1 le2, ?_⟩
        intro t N hw
        obtain ⟨w1, w2, w3, w4⟩ := hw
        have hw1 : (writeNode true s (nd x)).2.within t N :=
          ⟨le2.1.trans w1, le2.2.1.trans w2, le2.2.2.1.trans w3, le2.2.2.2.trans w4⟩
        have hxk : s2.fNode.list[k]? = some x := getElem?_of_prefix (le1.1.trans le2.1) hx
        have hk : k < s2.fNode.list.length := by
          rcases Nat.lt_or_ge k s2.fNode.list.length with h | h
          · exact h
          · rw [List.getElem?_eq_none h] at hxk; cases hxk
        have hdrop : s2.fNode.list.drop k = x :: s2.fNode.list.drop (k + 1) := by
          rw [List.drop_eq_getElem_cons hk]
          congr 1
          rw [List.getElem?_eq_getElem hk] at hxk
          exact Option.some.inj hxk
        simp only [readNodes, rd1 t N hw1, rd2 t N ⟨w1, w2, w3, w4⟩, hdrop, List.map_cons]

/-- **Nodes (index level).** All nodes — those assigned and those the loop appended because they were
only reachable as children — are read back with the same plane, face list and children (leaf
objects; child nodes as positions in the same list). -/
theorem nodes_roundtrip (nd : Nat → NodeV) (fuel : Nat) (nodes nodes' : List Nat) (t t' final : NodeTabs)
    (recs : List (List Val)) (h : writeNodes true nd fuel nodes t = some (recs, nodes', t'))
    (hp : t'.planes <+: final.planes) (hl : t'.leafs <+: final.leafs) (hf : t'.faces <+: final.faces) :
    readNodes final nodes' recs = .ok (nodes'.map nd) ∧ nodes <+: nodes' ∧
    t.planes <+: t'.planes ∧ t.leafs <+: t'.leafs ∧ t.faces <+: t'.faces := by
  unfold writeNodes at h
  cases hr : writeNodesAux true nd fuel 0 (NodeSt.mk (Finder.mk' idKey nodes) (Finder.mk' idKey t.planes)
      (Finder.mk' idKey t.leafs) (EFinder.mk' idKey t.faces)) with
  | none => simp [hr] at h
  | some p =>
    obtain ⟨rs, s⟩ := p
    simp only [hr, Option.some.injEq, Prod.mk.injEq] at h
    obtain ⟨rfl, rfl, rfl⟩ := h
    obtain ⟨_, le, rd⟩ := writeNodesAux_spec nd fuel 0 _ s rs
      ⟨Finder.mk'_inv _ _, Finder.mk'_inv _ _, Finder.mk'_inv _ _⟩ hr
    have := rd final s.fNode.list ⟨List.prefix_refl _, hp, hl, hf⟩
    simp only [List.drop_zero] at this
    exact ⟨this, le.1, le.2.1, le.2.2.1, le.2.2.2⟩


/-! ## shapes of the records (for the byte level) -/

theorem shape_int (v : Int) : (Val.int v).shape = .int := rfl
theorem shape_bool (v : Bool) : (Val.bool v).shape = .bool := rfl
theorem shape_f32 (v : UInt32) : (Val.f32 v).shape = .f32 := rfl
theorem shape_bytes (v : Bytes) : (Val.bytes v).shape = .bytes v.length := rfl

def faceShapes : List Shape :=
  [.int, .bool, .bool, .int, .int, .int, .int, .int, .bytes 4, .int, .f32, .int, .int, .int, .int, .int, .int, .int, .int]

theorem writeFace_shape (uo : Bool) (s s1 : FaceSt) (f : FaceV) (r : List Val) (h4 : f.lightStyles.length = 4)
    (h : writeFace true uo s f = .ok (r, s1)) : r.map Val.shape = faceShapes := by
  by_cases hpc : 0x7fff < f.prims.length
  · simp [writeFace, hpc] at h
  by_cases hls : 4 < f.lightStyles.length
  · simp [writeFace, hpc, hls] at h
  simp only [writeFace, hpc, hls, if_false, Except.ok.injEq, Prod.mk.injEq] at h
  obtain ⟨hr, _⟩ := h
  subst hr
  simp [shape_int, shape_bool, shape_f32, shape_bytes, faceShapes, h4]

theorem writeFacesAux_shape (uo : Bool) : ∀ (fs : List FaceV) (s s' : FaceSt) (recs : List (List Val)),
    (∀ f ∈ fs, f.lightStyles.length = 4) → writeFacesAux true uo s fs = .ok (recs, s') →
    ∀ r ∈ recs, r.map Val.shape = faceShapes := by
  intro fs
  induction fs with
  | nil => intro s s' recs _ h; simp [writeFacesAux] at h; obtain ⟨rfl, _⟩ := h; simp
  | cons f fs ih =>
    intro s s' recs h4 h
    simp only [writeFacesAux] at h
    cases h1 : writeFace true uo s f with
    | error e => simp [h1] at h
    | ok p =>
      obtain ⟨r, s1⟩ := p
      simp only [h1] at h
      cases h2 : writeFacesAux true uo s1 fs with
      | error e => simp [h2] at h
      | ok q =>
        obtain ⟨rs, s2⟩ := q
        simp only [h2, Except.ok.injEq, Prod.mk.injEq] at h
        obtain ⟨rfl, _⟩ := h
        intro x hx
        rcases List.mem_cons.mp hx with rfl | hx'
        · exact writeFace_shape uo s s1 f _ (h4 f (by simp)) h1
        · exact ih s1 s2 rs (fun y hy => h4 y (by simp [hy])) h2 x hx'

theorem writeFaces_shape (uo : Bool) (t t' : FaceTabs) (fs : List FaceV) (recs : List (List Val)) (hids : List Int)
    (h4 : ∀ f ∈ fs, f.lightStyles.length = 4) (h : writeFaces true uo t fs = .ok (recs, hids, t')) :
    ∀ r ∈ recs, r.map Val.shape = faceShapes := by
  unfold writeFaces at h
  cases h1 : writeFacesAux true uo (FaceSt.init t) fs with
  | error e => simp [h1] at h
  | ok p =>
    obtain ⟨rs, s⟩ := p
    simp only [h1, Except.ok.injEq, Prod.mk.injEq] at h
    obtain ⟨rfl, _⟩ := h
    exact writeFacesAux_shape uo fs _ s rs h4 h1

def brushShapes : List Shape := [.int, .int, .int]
def sideShapes (vitamin : Bool) : List Shape := if vitamin then [.int, .int, .int, .int, .int] else [.int, .int, .int, .int]

theorem writeBrushRecs_shape : ∀ (bs : List BrushV) (e : IdEFinder),
    ∀ r ∈ (writeBrushRecs true e bs).1, r.map Val.shape = brushShapes := by
  intro bs
  induction bs with
  | nil => intro e r hr; simp [writeBrushRecs] at hr
  | cons b bs ih =>
    intro e r hr
    simp only [writeBrushRecs, List.mem_cons] at hr
    rcases hr with rfl | hr
    · simp [shape_int, shape_bool, shape_f32, shape_bytes, brushShapes]
    · exact ih _ r hr

theorem writeSideRecs_shape (vit : Bool) (sd : Nat → SideV) : ∀ (xs : List Nat) (fp ft : IdFinder),
    ∀ r ∈ (writeSideRecs vit sd fp ft xs).1, r.map Val.shape = sideShapes vit := by
  intro xs
  induction xs with
  | nil => intro fp ft r hr; simp [writeSideRecs] at hr
  | cons x xs ih =>
    intro fp ft r hr
    simp only [writeSideRecs, List.mem_cons] at hr
    rcases hr with rfl | hr
    · cases vit <;> simp [shape_int, shape_bool, shape_f32, shape_bytes, sideShapes]
    · exact ih _ _ r hr

/-- shapes of a leaf record: `bs` = shape of the six bound fields (int; float in the Chaos layout) -/
def leafShapes (c : LeafCfg) (bs : Shape) : List Shape :=
  if c.vitamin then [.int, .int, .int, bs, bs, bs, bs, bs, bs, .int, .int, .int, .int, .int, .int]
  else [.int, .int, .int, bs, bs, bs, bs, bs, bs, .int, .int, .int, .int, .int] ++ (if c.hasAmbient then [.bytes 24] else [])

def LeafV.shapeOk (c : LeafCfg) (bs : Shape) (l : LeafV) : Prop :=
  l.b0.shape = bs ∧ l.b1.shape = bs ∧ l.b2.shape = bs ∧ l.b3.shape = bs ∧ l.b4.shape = bs ∧ l.b5.shape = bs ∧
  (c.vitamin = false → c.hasAmbient = true → l.ambient.length = 24)

theorem writeLeaf_shape (c : LeafCfg) (bs : Shape) (s : LeafSt) (l : LeafV) (h : l.shapeOk c bs) :
    (writeLeaf c s l).1.map Val.shape = leafShapes c bs := by
  obtain ⟨h0, h1, h2, h3, h4, h5, ha⟩ := h
  unfold writeLeaf leafShapes
  cases hv : c.vitamin with
  | true => simp [shape_int, shape_bool, shape_f32, shape_bytes, h0, h1, h2, h3, h4, h5]
  | false =>
    cases hab : c.hasAmbient with
    | true => simp [shape_int, shape_bool, shape_f32, shape_bytes, h0, h1, h2, h3, h4, h5, ha hv hab]
    | false => simp [shape_int, shape_bool, shape_f32, shape_bytes, h0, h1, h2, h3, h4, h5]

theorem writeLeafsAux_shape (c : LeafCfg) (bs : Shape) : ∀ (ls : List LeafV) (s : LeafSt),
    (∀ l ∈ ls, l.shapeOk c bs) → ∀ r ∈ (writeLeafsAux c s ls).1, r.map Val.shape = leafShapes c bs := by
  intro ls
  induction ls with
  | nil => intro s _ r hr; simp [writeLeafsAux] at hr
  | cons l ls ih =>
    intro s h r hr
    simp only [writeLeafsAux, List.mem_cons] at hr
    rcases hr with rfl | hr
    · exact writeLeaf_shape c bs s l (h l (by simp))
    · exact ih _ (fun x hx => h x (by simp [hx])) r hr

def nodeShapes (bs : Shape) : List Shape := [.int, .int, .int, bs, bs, bs, bs, bs, bs, .int, .int, .int]

def NodeV.shapeOk (bs : Shape) (n : NodeV) : Prop :=
  n.b0.shape = bs ∧ n.b1.shape = bs ∧ n.b2.shape = bs ∧ n.b3.shape = bs ∧ n.b4.shape = bs ∧ n.b5.shape = bs

theorem writeNodesAux_shape (nd : Nat → NodeV) (bs : Shape) (hnd : ∀ x, (nd x).shapeOk bs) :
    ∀ (fuel k : Nat) (s s' : NodeSt) (recs : List (List Val)), writeNodesAux true nd fuel k s = some (recs, s') →
    ∀ r ∈ recs, r.map Val.shape = nodeShapes bs := by
  intro fuel
  induction fuel with
  | zero =>
    intro k s s' recs h
    simp only [writeNodesAux] at h
    split at h
    · injection h with h; injection h with h1 _; subst h1; simp
    · cases h
  | succ fuel ih =>
    intro k s s' recs h
    simp only [writeNodesAux] at h
    cases hx : s.fNode.list[k]? with
    | none => simp only [hx] at h; injection h with h; injection h with h1 _; subst h1; simp
    | some x =>
      simp only [hx] at h
      cases hr : writeNodesAux true nd fuel (k + 1) (writeNode true s (nd x)).2 with
      | none => simp [hr] at h
      | some p =>
        obtain ⟨rs, s2⟩ := p
        simp only [hr, Option.some.injEq, Prod.mk.injEq] at h
        obtain ⟨rfl, _⟩ := h
        intro r hr'
        rcases List.mem_cons.mp hr' with rfl | hr''
        · obtain ⟨h0, h1, h2, h3, h4, h5⟩ := hnd x
          simp [writeNode, shape_int, shape_bool, shape_f32, shape_bytes, nodeShapes, h0, h1, h2, h3, h4, h5]
        · exact ih (k + 1) _ s2 rs hr r hr''


/-! ## primitives -/

theorem writePrims_spec : ∀ (ps : List PrimV) (idx : List Int) (vs : List (UInt32 × UInt32 × UInt32)),
    ∃ I V, (writePrims idx vs ps).2 = (idx ++ I, vs ++ V) ∧
      ∀ postI postV, readPrims (idx ++ (I ++ postI)) (vs ++ (V ++ postV)) (writePrims idx vs ps).1 = .ok ps := by
  intro ps
  induction ps with
  | nil => intro idx vs; exact ⟨[], [], by simp [writePrims], fun _ _ => rfl⟩
  | cons p ps ih =>
    intro idx vs
    obtain ⟨I, V, h1, h2⟩ := ih (idx ++ p.indices) (vs ++ p.verts)
    refine ⟨p.indices ++ I, p.verts ++ V, by simp [writePrims, h1], ?_⟩
    intro postI postV
    have := h2 postI postV
    simp only [List.append_assoc] at this
    simp only [writePrims, readPrims, readPrim, Int.toNat_natCast, List.append_assoc, List.drop_left, List.take_left, this]

/-- **Primitives + PRIMINDICES + PRIMVERTS.** -/
theorem prims_roundtrip (ps : List PrimV) :
    readPrims (writePrims [] [] ps).2.1 (writePrims [] [] ps).2.2 (writePrims [] [] ps).1 = .ok ps := by
  obtain ⟨I, V, h1, h2⟩ := writePrims_spec ps [] []
  have := h2 [] []
  rw [h1]
  simpa using this

/-! ## texinfo + texdata -/

theorem callAll_resK {κ : Type} [DecidableEq κ] (key : Nat → κ) : ∀ (xs : List Nat) (f : Finder Nat κ), f.Inv key →
    (Finder.callAll key f xs).2.Inv key ∧ f.list <+: (Finder.callAll key f xs).2.list ∧
    (Finder.callAll key f xs).1.length = xs.length ∧
    ∀ L, (Finder.callAll key f xs).2.list <+: L →
      ∃ Y, resolveArr L (Finder.callAll key f xs).1 = .ok Y ∧ Y.map key = xs.map key := by
  intro xs
  induction xs with
  | nil => intro f hf; exact ⟨hf, List.prefix_refl _, rfl, fun _ _ => ⟨[], rfl, rfl⟩⟩
  | cons x xs ih =>
    intro f hf
    obtain ⟨⟨y, hy, hk⟩, p1, i1⟩ := Finder.call_spec key f hf x
    obtain ⟨i2, p2, l2, r2⟩ := ih _ i1
    simp only [Finder.callAll]
    refine ⟨i2, p1.trans p2, by simp [l2], ?_⟩
    intro L hL
    obtain ⟨Y, hY, hYk⟩ := r2 L hL
    refine ⟨y :: Y, ?_, by simp [hk, hYk]⟩
    simp only [resolveArr, getElem?_of_prefix (p2.trans hL) hy, hY]


def normD (fold : Nat → Nat) (d : TexDataV) : TexDataV := { d with mat := fold d.mat }
def normR (fold : Nat → Nat) (r : TexInfoR) : TexInfoR := { r with td := normD fold r.td }
def deepTex (tdv : Nat → TexDataV) (i : TexInfoV) : TexInfoR := { f := i.f, flags := i.flags, td := tdv i.td }

theorem resolveArr_length (L : List Nat) : ∀ (ns Y : List Nat), resolveArr L ns = .ok Y → Y.length = ns.length := by
  intro ns
  induction ns with
  | nil => intro Y h; simp [resolveArr] at h; subst h; rfl
  | cons n ns ih =>
    intro Y h
    simp only [resolveArr] at h
    cases h1 : L[n]? with
    | none => simp [h1] at h
    | some x =>
      cases h2 : resolveArr L ns with
      | error e => simp [h1, h2] at h
      | ok ys => simp only [h1, h2, Except.ok.injEq] at h; subst h; simp [ih ys h2]

theorem readTexdata_rec (vit : Bool) (L : List Nat) (d : TexDataV) (n x : Nat) (h : L[n]? = some x) :
    readTexdata vit L (texdataRec vit d n) = .ok { d with mat := x } := by
  have hp : pyIdx L (n : Int) = some x := by simp [pyIdx, h]
  cases vit with
  | true => simp only [texdataRec, readTexdata, if_true, List.append_nil, hp]
  | false =>
    simp only [texdataRec, readTexdata, Bool.false_eq_true, if_false, List.cons_append, List.nil_append, and_self, if_true, hp]

theorem readTexdatas_spec (vit : Bool) (tdv : Nat → TexDataV) (L : List Nat) :
    ∀ (os ns Y : List Nat), resolveArr L ns = .ok Y → os.length = ns.length →
    readTexdatas vit L ((List.zip os ns).map (fun p => texdataRec vit (tdv p.1) p.2))
      = .ok (List.zipWith (fun o y => { tdv o with mat := y }) os Y) := by
  intro os
  induction os with
  | nil => intro ns Y _ _; simp [readTexdatas]
  | cons o os ih =>
    intro ns Y hr hl
    cases ns with
    | nil => simp at hl
    | cons n ns =>
      simp only [resolveArr] at hr
      cases h1 : L[n]? with
      | none => simp [h1] at hr
      | some x =>
        cases h2 : resolveArr L ns with
        | error e => simp [h1, h2] at hr
        | ok ys =>
          simp only [h1, h2, Except.ok.injEq] at hr
          subst hr
          have := ih ns ys h2 (by simpa using hl)
          simp only [List.zip_cons_cons, List.map_cons, readTexdatas, readTexdata_rec vit L (tdv o) n x h1, this,
            List.zipWith_cons_cons]

theorem f32sOf_map (f : List UInt32) : f32sOf (f.map Val.f32) = some f := by
  induction f with
  | nil => rfl
  | cons x xs ih => simp [f32sOf, ih]

theorem pyGet_nat {α : Type} (l : List α) (n : Nat) : pyGet l (n : Int) = l[n]? := by simp [pyGet]

theorem readTexinfoRecs_spec (fold : Nat → Nat) (tdv : Nat → TexDataV) (D : List TexDataV) :
    ∀ (is : List TexInfoV) (ix : List Nat), is.length = ix.length → (∀ i ∈ is, i.f.length = 16) →
    (∀ k (hk : k < is.length) (hk' : k < ix.length), ∃ d, D[ix[k]]? = some d ∧ normD fold d = normD fold (tdv is[k].td)) →
    ∃ rs, readTexinfoRecs D ((List.zip is ix).map (fun p => (p.1.f.map Val.f32) ++ [.int p.1.flags, .int p.2])) = .ok rs ∧
      rs.map (normR fold) = is.map (fun i => normR fold (deepTex tdv i)) := by
  intro is
  induction is with
  | nil => intro ix _ _ _; exact ⟨[], by simp [readTexinfoRecs], rfl⟩
  | cons i is ih =>
    intro ix hl h16 hd
    cases ix with
    | nil => simp at hl
    | cons x ix =>
      obtain ⟨d, hd0, hn0⟩ := hd 0 (by simp) (by simp)
      obtain ⟨rs, hrs, hmap⟩ := ih ix (by simpa using hl) (fun j hj => h16 j (by simp [hj]))
        (fun k hk hk' => by
          have := hd (k + 1) (by simp; omega) (by simp; omega)
          simpa using this)
      have hlen : i.f.length = 16 := h16 i (by simp)
      have ht : ((i.f.map Val.f32) ++ [Val.int i.flags, Val.int (x : Int)]).take 16 = i.f.map Val.f32 := by
        rw [List.take_left' (by simp [hlen])]
      have hdr : ((i.f.map Val.f32) ++ [Val.int i.flags, Val.int (x : Int)]).drop 16 = [Val.int i.flags, Val.int (x : Int)] := by
        rw [List.drop_left' (by simp [hlen])]
      refine ⟨{ f := i.f, flags := i.flags, td := d } :: rs, ?_, ?_⟩
      · simp only [List.zip_cons_cons, List.map_cons, readTexinfoRecs, readTexinfoRec, ht, hdr, f32sOf_map, pyGet_nat]
        simp only [List.getElem_cons_zero] at hd0
        rw [hd0]
        simp only [hrs]
      · simp only [List.map_cons, hmap, normR, deepTex, List.getElem_cons_zero] at hn0 ⊢
        rw [hn0]

/-- **texinfo + texdata (index level).** Whatever texdata share a material name, and whatever case the
texture table spells it in, every texinfo is read back with its 16 floats, its flags and the
reflectivity / size of *its own* texdata; the material name is the table's spelling of the same
case-folded name. -/
theorem texinfo_roundtrip (vit : Bool) (fold : Nat → Nat) (tdv : Nat → TexDataV) (textures final : List Nat)
    (infos : List TexInfoV) (h16 : ∀ i ∈ infos, i.f.length = 16)
    (hfin : (writeTexinfo vit fold tdv textures infos).2.2 <+: final) :
    ∃ rs, readTexinfo vit final (writeTexinfo vit fold tdv textures infos).1 (writeTexinfo vit fold tdv textures infos).2.1 = .ok rs ∧
      rs.map (normR fold) = infos.map (fun i => normR fold (deepTex tdv i)) ∧
      textures <+: (writeTexinfo vit fold tdv textures infos).2.2 := by
  obtain ⟨hlen, _, hall⟩ := Finder.callAll_spec idKey (infos.map (·.td)) (Finder.mk' idKey []) (Finder.mk'_inv idKey [])
  obtain ⟨_, ppre, nlen, nres⟩ := callAll_resK fold
    ((texdataTable idKey (infos.map (·.td))).2.map (fun o => (tdv o).mat)) (Finder.mk' fold textures) (Finder.mk'_inv fold textures)
  simp only [writeTexinfo] at hfin ⊢
  obtain ⟨Y, hY, hYk⟩ := nres final hfin
  have hYlen := resolveArr_length final _ Y hY
  have hD := readTexdatas_spec vit tdv final (texdataTable idKey (infos.map (·.td))).2 _ Y hY (by simp [nlen])
  unfold readTexinfo
  rw [hD]
  have := readTexinfoRecs_spec fold tdv
    (List.zipWith (fun o y => { tdv o with mat := y }) (texdataTable idKey (infos.map (·.td))).2 Y)
    infos (texdataTable idKey (infos.map (·.td))).1 (by simpa [texdataTable] using hlen.symm) h16
    (by
      intro k hk hk'
      obtain ⟨i, y, h1, h2, h3⟩ := hall k (by simpa using hk)
      have hy : y = (infos.map (·.td))[k] := h3
      simp only [texdataTable] at hk' ⊢
      have hik : (Finder.callAll idKey (Finder.mk' idKey []) (infos.map (·.td))).1[k] = i := by
        rw [List.getElem?_eq_getElem hk'] at h1; exact Option.some.inj h1
      rw [hik]
      have hi : i < (Finder.callAll idKey (Finder.mk' idKey []) (infos.map (·.td))).2.list.length := by
        rcases Nat.lt_or_ge i (Finder.callAll idKey (Finder.mk' idKey []) (infos.map (·.td))).2.list.length with h | h
        · exact h
        · rw [List.getElem?_eq_none h] at h2; cases h2
      have hiY : i < Y.length := by rw [hYlen, nlen]; simpa [texdataTable] using hi
      refine ⟨{ tdv y with mat := Y[i] }, ?_, ?_⟩
      · rw [List.getElem?_zipWith]
        simp only [texdataTable, h2, List.getElem?_eq_getElem hiY, Option.map_some, Option.bind_some]
      · have hfold : fold Y[i] = fold (tdv y).mat := by
          have := congrArg (fun l => l[i]?) hYk
          simp only [List.getElem?_map, List.getElem?_eq_getElem hiY, Option.map_some, texdataTable, h2] at this
          exact Option.some.inj this
        simp only [normD, hfold, hy, List.getElem_map])
  obtain ⟨rs, h1, h2⟩ := this
  exact ⟨rs, h1, h2, ppre⟩


/-! ## overlays -/

theorem intsOf_map (l : List Int) (k : Nat) : intsOf (l.map Val.int ++ List.replicate k (Val.int 0)) = some (l ++ List.replicate k 0) := by
  induction l with
  | nil =>
    induction k with
    | zero => rfl
    | succ k ih => simp only [List.map_nil, List.nil_append] at ih ⊢; simp [List.replicate_succ, intsOf, ih]
  | cons x xs ih => simp [intsOf, ih]

theorem readOverlay_rec (mf : Nat) (o : OverlayV) (i : Nat) (texinfo : List Nat) (hn : o.faces.length ≤ mf) (hmf : mf < 2 ^ 14)
    (ht : texinfo[i]? = some o.texinfo) :
    readOverlay mf texinfo (overlayRec mf o i) [.f32 o.fadeMin, .f32 o.fadeMax]
      [.int o.minCpu, .int o.maxCpu, .int o.minGpu, .int o.maxGpu] = .ok o := by
  have hlen : (o.faces.map Val.int ++ List.replicate (mf - o.faces.length) (Val.int 0)).length = mf := by simp; omega
  have h3 : (overlayRec mf o i).take 3 = [.int o.id, .int i, .int ((o.renderOrder <<< 14) ||| o.faces.length)] := by
    simp [overlayRec]
  have hmid : ((overlayRec mf o i).drop 3).take mf = o.faces.map Val.int ++ List.replicate (mf - o.faces.length) (Val.int 0) := by
    simp only [overlayRec, List.append_assoc, List.cons_append, List.nil_append, List.drop_succ_cons, List.drop_zero]
    rw [← List.append_assoc, List.take_left' hlen]
  have hend : (overlayRec mf o i).drop (3 + mf) = o.floats.map Val.f32 := by
    rw [← List.drop_drop]
    simp only [overlayRec, List.append_assoc, List.cons_append, List.nil_append, List.drop_succ_cons, List.drop_zero]
    rw [← List.append_assoc, List.drop_left' hlen]
  obtain ⟨a1, a2⟩ := area_flags o.renderOrder o.faces.length 14 (by omega)
  have hp : pyIdx texinfo (i : Int) = some o.texinfo := by simp [pyIdx, ht]
  unfold readOverlay
  rw [h3, hmid, hend, intsOf_map, f32sOf_map]
  simp only [Int.toNat_natCast, a1, a2, hp]
  rw [if_neg (by omega), List.take_left' rfl]

theorem writeOverlays_spec (mf : Nat) (hmf : mf < 2 ^ 14) : ∀ (os : List OverlayV) (f f' : IdFinder) (rs fs ls : List (List Val)),
    f.Inv idKey → writeOverlays mf f os = .ok (rs, fs, ls, f') →
    f.list <+: f'.list ∧ ∀ final, f'.list <+: final → readOverlays mf final rs fs ls = .ok os := by
  intro os
  induction os with
  | nil =>
    intro f f' rs fs ls _ h
    simp only [writeOverlays, Except.ok.injEq, Prod.mk.injEq] at h
    obtain ⟨rfl, rfl, rfl, rfl⟩ := h
    exact ⟨List.prefix_refl _, fun _ _ => rfl⟩
  | cons o os ih =>
    intro f f' rs fs ls hf h
    simp only [writeOverlays] at h
    by_cases hn : mf < o.faces.length
    · simp [hn] at h
    · simp only [hn, if_false] at h
      cases hr : writeOverlays mf (f.call idKey o.texinfo).2 os with
      | error e => simp [hr] at h
      | ok q =>
        obtain ⟨rs1, fs1, ls1, f1⟩ := q
        simp only [hr, Except.ok.injEq, Prod.mk.injEq] at h
        obtain ⟨rfl, rfl, rfl, rfl⟩ := h
        obtain ⟨i1, p1, r1⟩ := finder_res f hf o.texinfo
        obtain ⟨p2, rd⟩ := ih _ f1 rs1 fs1 ls1 i1 hr
        refine ⟨p1.trans p2, ?_⟩
        intro final hfin
        simp only [readOverlays, readOverlay_rec mf o _ final (by omega) hmf (r1 final (p2.trans hfin)), rd final hfin]

/-- **Overlays + fades + system levels (index level).** -/
theorem overlays_roundtrip (mf : Nat) (hmf : mf < 2 ^ 14) (texinfo final : List Nat) (os : List OverlayV)
    (rs fs ls : List (List Val)) (f' : IdFinder)
    (h : writeOverlays mf (Finder.mk' idKey texinfo) os = .ok (rs, fs, ls, f')) (hfin : f'.list <+: final) :
    readOverlays mf final rs fs ls = .ok os ∧ texinfo <+: f'.list := by
  obtain ⟨p, rd⟩ := writeOverlays_spec mf hmf os _ f' rs fs ls (Finder.mk'_inv idKey texinfo) h
  exact ⟨rd final hfin, p⟩

/-! ## surfedges + edges -/

def orient (ed : Nat → Nat × Nat) (s : SurfEdgeV) : Nat × Nat :=
  if s.reversed then ((ed s.edge).2, (ed s.edge).1) else ed s.edge

theorem writeSurfIdx_spec (ed : Nat → Nat × Nat) (dummy : Nat) : ∀ (ss : List SurfEdgeV) (f : IdFinder),
    f.Inv idKey → f.list[0]? = some dummy → (∀ s ∈ ss, s.edge ≠ dummy) →
    f.list <+: (writeSurfIdx f ss).2.list ∧
    ∀ L, (writeSurfIdx f ss).2.list <+: L → readSurfIdx (L.map ed) (writeSurfIdx f ss).1 = .ok (ss.map (orient ed)) := by
  intro ss
  induction ss with
  | nil => intro f _ _ _; exact ⟨List.prefix_refl _, fun _ _ => rfl⟩
  | cons s ss ih =>
    intro f hf h0 hne
    obtain ⟨i1, p1, r1⟩ := finder_res f hf s.edge
    obtain ⟨p2, rd⟩ := ih _ i1 (getElem?_of_prefix p1 h0) (fun x hx => hne x (by simp [hx]))
    simp only [writeSurfIdx]
    refine ⟨p1.trans p2, ?_⟩
    intro L hL
    have hi := r1 L (p2.trans hL)
    have hL0 : L[0]? = some dummy := getElem?_of_prefix ((p1.trans p2).trans hL) h0
    have hpos : (f.call idKey s.edge).1 ≠ 0 := by
      intro h
      rw [h, hL0] at hi
      exact hne s (by simp) (Option.some.inj hi).symm
    have hm : (L.map ed)[(f.call idKey s.edge).1]? = some (ed s.edge) := by simp [hi]
    cases hr : s.reversed with
    | true =>
      have hneg : (-(((f.call idKey s.edge).1 : Nat) : Int)) < 0 := by omega
      simp only [readSurfIdx, hr, if_true, hneg, Int.neg_neg, Int.toNat_natCast, hm, Option.map_some, rd L hL,
        List.map_cons, orient]
    | false =>
      have hnn : ¬ ((((f.call idKey s.edge).1 : Nat) : Int) < 0) := by omega
      simp only [readSurfIdx, hr, Bool.false_eq_true, if_false, hnn, Int.toNat_natCast, hm, rd L hL, List.map_cons, orient]

theorem writeEdgeRecs_spec (ed : Nat → Nat × Nat) : ∀ (es : List Nat) (f : IdFinder), f.Inv idKey →
    f.list <+: (writeEdgeRecs ed f es).2.list ∧
    ∀ V, (writeEdgeRecs ed f es).2.list <+: V → readEdgeRecs V (writeEdgeRecs ed f es).1 = .ok (es.map ed) := by
  intro es
  induction es with
  | nil => intro f _; exact ⟨List.prefix_refl _, fun _ _ => rfl⟩
  | cons e es ih =>
    intro f hf
    obtain ⟨i1, p1, r1⟩ := finder_res f hf (ed e).1
    obtain ⟨i2, p2, r2⟩ := finder_res _ i1 (ed e).2
    obtain ⟨p3, rd⟩ := ih _ i2
    simp only [writeEdgeRecs]
    refine ⟨(p1.trans p2).trans p3, ?_⟩
    intro V hV
    have ha := r1 V ((p2.trans p3).trans hV)
    have hb := r2 V (p3.trans hV)
    simp only [readEdgeRecs, pyIdx_nat, ha, hb, rd V hV, List.map_cons]

/-- **Surfedges + edges (index level).** Every surfedge is read back as the ordered pair of vertex
objects of its edge (swapped for a RevEdge); index 0 is the dummy edge the writer creates, so the
sign of an index is never lost. -/
theorem surfedges_roundtrip (isZero : Nat → Bool) (fresh dummy : Nat) (ed : Nat → Nat × Nat) (verts final : List Nat)
    (ss : List SurfEdgeV) (hne : ∀ s ∈ ss, s.edge ≠ dummy)
    (hfin : (writeSurfedges isZero fresh dummy ed verts ss).2.2 <+: final) :
    readSurfedges final (writeSurfedges isZero fresh dummy ed verts ss).1 (writeSurfedges isZero fresh dummy ed verts ss).2.1
      = .ok (ss.map (orient ed)) ∧ verts <+: (writeSurfedges isZero fresh dummy ed verts ss).2.2 := by
  obtain ⟨_, rdS⟩ := writeSurfIdx_spec ed dummy ss (Finder.mk' idKey [dummy]) (Finder.mk'_inv _ _) (by simp [Finder.mk']) hne
  obtain ⟨pV, rdE⟩ := writeEdgeRecs_spec ed (writeSurfIdx (Finder.mk' idKey [dummy]) ss).2.list
    (Finder.mk' idKey (firstVert isZero fresh verts).2) (Finder.mk'_inv _ _)
  simp only [writeSurfedges] at hfin ⊢
  refine ⟨?_, ?_⟩
  · unfold readSurfedges
    rw [rdE final hfin]
    exact rdS _ (List.prefix_refl _)
  · have hv : verts <+: (firstVert isZero fresh verts).2 := by
      unfold firstVert; split
      · exact List.prefix_refl _
      · exact List.prefix_append _ _
    exact hv.trans pV


/-! ## water leaf info -/

theorem writeWater_spec : ∀ (ws : List WaterV) (f : IdFinder), f.Inv idKey →
    f.list <+: (writeWater f ws).2.list ∧
    ∀ final, (writeWater f ws).2.list <+: final → readWater final (writeWater f ws).1 = .ok ws := by
  intro ws
  induction ws with
  | nil => intro f _; exact ⟨List.prefix_refl _, fun _ _ => rfl⟩
  | cons w ws ih =>
    intro f hf
    obtain ⟨i1, p1, r1⟩ := finder_res f hf w.texinfo
    obtain ⟨p2, rd⟩ := ih _ i1
    simp only [writeWater]
    refine ⟨p1.trans p2, ?_⟩
    intro final hfin
    simp only [readWater, pyIdx_nat, r1 final (p2.trans hfin), rd final hfin]

/-- **Water leaf info.** -/
theorem water_roundtrip (texinfo final : List Nat) (ws : List WaterV)
    (hfin : (writeWater (Finder.mk' idKey texinfo) ws).2.list <+: final) :
    readWater final (writeWater (Finder.mk' idKey texinfo) ws).1 = .ok ws :=
  (writeWater_spec ws _ (Finder.mk'_inv idKey texinfo)).2 final hfin

/-! ## VitaminSource faces -/

def VFaceSt.Inv (s : VFaceSt) : Prop := s.fTex.Inv idKey ∧ s.fPlane.Inv idKey

theorem writeVFaces_spec : ∀ (fs : List VFaceV) (s : VFaceSt), s.Inv → (∀ f ∈ fs, f.texinfo.isSome) →
    s.fTex.list <+: (writeVFaces true s fs).2.fTex.list ∧ s.fPlane.list <+: (writeVFaces true s fs).2.fPlane.list ∧
    s.eEdges.list <+: (writeVFaces true s fs).2.eEdges.list ∧
    ∀ (tex planes edges : List Nat), (writeVFaces true s fs).2.fTex.list <+: tex → (writeVFaces true s fs).2.fPlane.list <+: planes →
      (writeVFaces true s fs).2.eEdges.list <+: edges → readVFaces tex planes edges (writeVFaces true s fs).1 = .ok fs := by
  intro fs
  induction fs with
  | nil => intro s _ _; exact ⟨List.prefix_refl _, List.prefix_refl _, List.prefix_refl _, fun _ _ _ _ _ _ => rfl⟩
  | cons f fs ih =>
    intro s hs hok
    obtain ⟨hT, hP⟩ := hs
    obtain ⟨t, hte⟩ := Option.isSome_iff_exists.mp (hok f (by simp))
    obtain ⟨iT, pT, rT⟩ := finder_res s.fTex hT t
    obtain ⟨iP, pP, rP⟩ := finder_res s.fPlane hP f.plane
    obtain ⟨pE, rE⟩ := efinder_res s.eEdges f.edges
    have hs1 : (writeVFace true s f).2.Inv := by simp only [writeVFace, hte]; exact ⟨iT, iP⟩
    obtain ⟨q1, q2, q3, rd⟩ := ih (writeVFace true s f).2 hs1 (fun x hx => hok x (by simp [hx]))
    have e1 : (writeVFace true s f).2.fTex = (s.fTex.call idKey t).2 := by simp only [writeVFace, hte]
    have e2 : (writeVFace true s f).2.fPlane = (s.fPlane.call idKey f.plane).2 := by simp only [writeVFace]
    have e3 : (writeVFace true s f).2.eEdges = (s.eEdges.call true idKey f.edges).2 := by simp only [writeVFace]
    rw [e1] at q1; rw [e2] at q2; rw [e3] at q3
    simp only [writeVFaces]
    refine ⟨pT.trans q1, pP.trans q2, pE.trans q3, ?_⟩
    intro tex planes edges h1 h2 h3
    have r := rd tex planes edges h1 h2 h3
    simp only [readVFaces, r]
    simp only [writeVFace, hte, readVFace, pyIdx_nat, rP planes (q2.trans h2), rT tex (q1.trans h1), Int.toNat_natCast,
      rE edges (q3.trans h3)]
    cases f; simp_all

/-- **VitaminSource faces.** -/
theorem vfaces_roundtrip (tex planes edges ftex fplanes fedges : List Nat) (fs : List VFaceV) (hok : ∀ f ∈ fs, f.texinfo.isSome)
    (h1 : (writeVFaces true ⟨Finder.mk' idKey tex, Finder.mk' idKey planes, EFinder.mk' idKey edges⟩ fs).2.fTex.list <+: ftex)
    (h2 : (writeVFaces true ⟨Finder.mk' idKey tex, Finder.mk' idKey planes, EFinder.mk' idKey edges⟩ fs).2.fPlane.list <+: fplanes)
    (h3 : (writeVFaces true ⟨Finder.mk' idKey tex, Finder.mk' idKey planes, EFinder.mk' idKey edges⟩ fs).2.eEdges.list <+: fedges) :
    readVFaces ftex fplanes fedges (writeVFaces true ⟨Finder.mk' idKey tex, Finder.mk' idKey planes, EFinder.mk' idKey edges⟩ fs).1 = .ok fs :=
  (writeVFaces_spec fs _ ⟨Finder.mk'_inv _ _, Finder.mk'_inv _ _⟩ hok).2.2.2 ftex fplanes fedges h1 h2 h3

/-! ## overlay byte layer: the writer's pad bytes are the reader's zero face slots -/

theorem packInt32_zero : packInt 4 true 0 = .ok [0, 0, 0, 0] := by
  have h : inRange 4 true 0 = true := by unfold inRange intLo intHi; decide
  unfold packInt
  rw [if_pos h]
  congr 1

theorem pack_i32_zeros (m : Nat) (rest : Fmt) (vs : List Val) :
    pack (List.replicate m FieldFmt.i32 ++ rest) (List.replicate m (Val.int 0) ++ vs)
      = pack (FieldFmt.pad (4 * m) :: rest) vs := by
  induction m with
  | zero =>
    simp only [List.replicate_zero, List.nil_append, Nat.mul_zero, pack]
    cases pack rest vs <;> simp [zeros]
  | succ m ih =>
    simp only [List.replicate_succ, List.cons_append, pack, packField, FieldFmt.intInfo, packInt32_zero, ih]
    cases pack rest vs with
    | error e => rfl
    | ok r =>
      simp only [zeros]
      have : 4 * (m + 1) = 4 + 4 * m := by omega
      rw [this, ← List.replicate_append_replicate]
      rfl


theorem pack_cons_congr (f : FieldFmt) (hf : f.isValue = true) (v : Val) {F F' : Fmt} {V V' : List Val}
    (h : pack F V = pack F' V') : pack (f :: F) (v :: V) = pack (f :: F') (v :: V') := by
  cases f <;> simp_all [pack, FieldFmt.isValue]

theorem pack_prefix_congr : ∀ (P : Fmt) (pv : List Val), P.length = pv.length → (∀ f ∈ P, f.isValue = true) →
    ∀ {F F' : Fmt} {V V' : List Val}, pack F V = pack F' V' → pack (P ++ F) (pv ++ V) = pack (P ++ F') (pv ++ V') := by
  intro P
  induction P with
  | nil => intro pv hl _ F F' V V' h; cases pv with
    | nil => simpa using h
    | cons _ _ => simp at hl
  | cons f P ih =>
    intro pv hl hv F F' V V' h
    cases pv with
    | nil => simp at hl
    | cons v pv =>
      simp only [List.cons_append]
      exact pack_cons_congr f (hv f (by simp)) v (ih pv (by simpa using hl) (fun g hg => hv g (by simp [hg])) h)

/-- **Overlay record, byte layer.** What the writer packs — head, the `n` face numbers followed by
`4·(maxFaces − n)` pad bytes, the floats — is byte for byte what packing the reader's record (all
`maxFaces` face slots, the unused ones zero) with the reader's format gives. `r` = reader format,
`w` = the writer's format for `n` faces (hypotheses = `C11_gen_overlay_record`). -/
theorem overlay_bytes (mf : Nat) (r w : Fmt) (o : OverlayV) (idx : Nat) (hn : o.faces.length ≤ mf)
    (hmid : (r.drop 3).take mf = List.replicate mf FieldFmt.i32) (hlen : 3 + mf ≤ r.length)
    (hhead : ∀ f ∈ r.take 3, f.isValue = true)
    (hw : normalize w = normalize (r.take 3 ++ List.replicate o.faces.length FieldFmt.i32
            ++ [FieldFmt.pad (4 * (mf - o.faces.length))] ++ r.drop (3 + mf))) :
    pack w ([.int o.id, .int idx, .int ((o.renderOrder <<< 14) ||| o.faces.length)] ++ o.faces.map Val.int ++ o.floats.map Val.f32)
      = pack r (overlayRec mf o idx) := by
  have hr : r = r.take 3 ++ (List.replicate o.faces.length FieldFmt.i32 ++ (List.replicate (mf - o.faces.length) FieldFmt.i32 ++ r.drop (3 + mf))) := by
    conv => lhs; rw [← List.take_append_drop 3 r]
    congr 1
    conv => lhs; rw [← List.take_append_drop mf (r.drop 3)]
    rw [hmid, List.drop_drop]
    have hsplit : List.replicate mf FieldFmt.i32 = List.replicate o.faces.length FieldFmt.i32 ++ List.replicate (mf - o.faces.length) FieldFmt.i32 := by
      rw [List.replicate_append_replicate]; congr 1; omega
    rw [hsplit, List.append_assoc]
  rw [← pack_normalize w, hw, pack_normalize]
  conv => rhs; rw [hr]
  simp only [overlayRec, List.append_assoc]
  have h3 : (r.take 3).length = 3 := by simp; omega
  apply pack_prefix_congr (r.take 3) [.int o.id, .int idx, .int ((o.renderOrder <<< 14) ||| o.faces.length)] (by simp [h3]) hhead
  apply pack_prefix_congr (List.replicate o.faces.length FieldFmt.i32) (o.faces.map Val.int) (by simp)
    (by intro f hf; rw [List.eq_of_mem_replicate hf]; rfl)
  simp only [List.cons_append, List.nil_append]
  exact (pack_i32_zeros _ _ _).symm


/-! ## brush models + PHYSCOLLIDE -/

theorem pi32_spec {v : Int} {b : Bytes} (h : pi32 v = .ok b) : b.length = 4 ∧ unpackInt 4 true b = v := by
  have h' := mapError_ok _ _ _ h
  exact ⟨packInt_length h', unpackInt_packInt 4 (by decide) true _ _ h'⟩

theorem readSolids_spec : ∀ (ss : List Bytes) (B rest : Bytes), solidsBytes ss = .ok B →
    readSolids ss.length (B ++ rest) = .ok (ss, rest) := by
  intro ss
  induction ss with
  | nil => intro B rest h; simp [solidsBytes] at h; subst h; simp [readSolids]
  | cons s ss ih =>
    intro B rest h
    simp only [solidsBytes] at h
    obtain ⟨l, hl, h⟩ := bind_ok _ _ _ h
    obtain ⟨r, hr, h⟩ := map_ok _ _ _ h
    subst h
    obtain ⟨ll, ul⟩ := pi32_spec hl
    have ht : (l ++ s ++ r ++ rest).take 4 = l := by simp [List.append_assoc, List.take_left' ll]
    have hd : (l ++ s ++ r ++ rest).drop 4 = s ++ (r ++ rest) := by simp [List.append_assoc, List.drop_left' ll]
    simp only [List.length_cons, readSolids, ht, hd, ll, ul, Int.toNat_natCast, List.drop_left, List.take_left,
      Nat.lt_irrefl, if_false, ih r rest hr]

/-- a model has a physics section -/
def hasPhys (m : BModelV) : Bool := !(m.kv == none && m.solids == [])

/-- the text section has no trailing NUL of its own (it is a serialised keyvalues text) -/
def BModelV.ok (m : BModelV) : Prop :=
  (m.solids ≠ [] → m.kv ≠ none) ∧ (∀ t, m.kv = some t → t.getLast? ≠ some 0)

def physEntryOf (i : Nat) (m : BModelV) : PhysEntry := { model := i, solids := m.solids, kv := m.kv.getD [] }

theorem readPhys_section (fuel i : Nat) (m : BModelV) (S rest : Bytes) (hm : m.ok) (hp : hasPhys m = true)
    (h : physSection i m = .ok S) :
    readPhys (fuel + 1) (S ++ rest) =
      match readPhys fuel rest with
      | .error e => .error e
      | .ok es => .ok (physEntryOf i m :: es) := by
  have hne : ¬ (m.kv = none ∧ m.solids = []) := by
    simp only [hasPhys, Bool.not_eq_true', Bool.and_eq_false_iff, beq_eq_false_iff_ne, ne_eq] at hp
    intro ⟨a, b⟩; rcases hp with h | h
    · exact h a
    · exact h b
  simp only [physSection, hne, if_false] at h
  obtain ⟨a, ha, h⟩ := bind_ok _ _ _ h
  obtain ⟨b, hb, h⟩ := bind_ok _ _ _ h
  obtain ⟨c, hc, h⟩ := bind_ok _ _ _ h
  obtain ⟨d, hd, h⟩ := bind_ok _ _ _ h
  obtain ⟨ss, hss, h⟩ := map_ok _ _ _ h
  subst h
  obtain ⟨la, ua⟩ := pi32_spec ha
  obtain ⟨lb, _⟩ := pi32_spec hb
  obtain ⟨lc, uc⟩ := pi32_spec hc
  obtain ⟨ld, ud⟩ := pi32_spec hd
  have e16 : (a ++ b ++ c ++ d ++ ss ++ (m.kv.getD [] ++ [0]) ++ rest) = a ++ (b ++ (c ++ (d ++ (ss ++ ((m.kv.getD [] ++ [0]) ++ rest))))) := by
    simp [List.append_assoc]
  rw [e16, readPhys]
  have t16 : ((a ++ (b ++ (c ++ (d ++ (ss ++ ((m.kv.getD [] ++ [0]) ++ rest)))))).take 16).length = 16 := by
    simp [la, lb, lc, ld]; omega
  have t4 : (a ++ (b ++ (c ++ (d ++ (ss ++ ((m.kv.getD [] ++ [0]) ++ rest)))))).take 4 = a := List.take_left' la
  have d8 : ((a ++ (b ++ (c ++ (d ++ (ss ++ ((m.kv.getD [] ++ [0]) ++ rest)))))).drop 8).take 4 = c := by
    rw [← List.append_assoc a b, List.drop_left' (by simp [la, lb]), List.take_left' lc]
  have d12 : ((a ++ (b ++ (c ++ (d ++ (ss ++ ((m.kv.getD [] ++ [0]) ++ rest)))))).drop 12).take 4 = d := by
    rw [← List.append_assoc a b, ← List.append_assoc (a ++ b) c, List.drop_left' (by simp [la, lb, lc]), List.take_left' ld]
  have d16 : (a ++ (b ++ (c ++ (d ++ (ss ++ ((m.kv.getD [] ++ [0]) ++ rest)))))).drop 16 = ss ++ ((m.kv.getD [] ++ [0]) ++ rest) := by
    rw [← List.append_assoc a b, ← List.append_assoc (a ++ b) c, ← List.append_assoc (a ++ b ++ c) d,
      List.drop_left' (by simp [la, lb, lc, ld])]
  simp only [t16, Nat.lt_irrefl, if_false, t4, d8, d12, d16, ua, uc, ud, Int.toNat_natCast]
  have hneg1 : ¬ ((i : Int) = -1) := by omega
  have hneg : ¬ ((i : Int) < 0) := by omega
  simp only [hneg1, hneg, if_false, readSolids_spec m.solids ss _ hss, List.drop_left, List.take_left]
  -- the text section comes back without its terminating NUL
  have hkv : rstrip0 (m.kv.getD [] ++ [0]) = m.kv.getD [] := by
    have := rstrip0_append_zeros (m.kv.getD []) 1 (by
      cases hk : m.kv with
      | none => simp
      | some t => simpa using hm.2 t hk)
    simpa [zeros] using this
  simp only [hkv, physEntryOf]
  cases readPhys fuel rest <;> rfl

theorem readPhys_sentinel (fuel : Nat) (S rest : Bytes) (h : physSentinel = .ok S) : readPhys (fuel + 1) (S ++ rest) = .ok [] := by
  simp only [physSentinel] at h
  obtain ⟨a, ha, h⟩ := bind_ok _ _ _ h
  obtain ⟨z, hz, h⟩ := map_ok _ _ _ h
  subst h
  obtain ⟨la, ua⟩ := pi32_spec ha
  obtain ⟨lz, _⟩ := pi32_spec hz
  rw [readPhys]
  have t16 : ((a ++ z ++ z ++ z ++ rest).take 16).length = 16 := by simp [la, lz]; omega
  have t4 : (a ++ z ++ z ++ z ++ rest).take 4 = a := by simp [List.append_assoc, List.take_left' la]
  simp only [t16, Nat.lt_irrefl, if_false, t4, ua, if_true]

/-- the sections of the models at positions `i, i+1, …` -/
def physEntries : Nat → List BModelV → List PhysEntry
  | _, [] => []
  | i, m :: ms => if hasPhys m then physEntryOf i m :: physEntries (i + 1) ms else physEntries (i + 1) ms

theorem readPhys_sections (md : Nat → BModelV) (hmd : ∀ x, (md x).ok) (S rest : Bytes) (hS : physSentinel = .ok S) :
    ∀ (ms : List Nat) (i fuel : Nat) (P : Bytes), ms.length < fuel → physSections md i ms = .ok P →
    readPhys fuel (P ++ (S ++ rest)) = .ok (physEntries i (ms.map md)) := by
  intro ms
  induction ms with
  | nil =>
    intro i fuel P hf h
    simp [physSections] at h; subst h
    obtain ⟨f, rfl⟩ := Nat.exists_eq_succ_of_ne_zero (by omega : fuel ≠ 0)
    simpa [physEntries] using readPhys_sentinel f S rest hS
  | cons m ms ih =>
    intro i fuel P hf h
    simp only [physSections] at h
    obtain ⟨a, ha, h⟩ := bind_ok _ _ _ h
    obtain ⟨r, hr, h⟩ := map_ok _ _ _ h
    subst h
    obtain ⟨f, rfl⟩ := Nat.exists_eq_succ_of_ne_zero (by simp at hf; omega : fuel ≠ 0)
    have hih := ih (i + 1) f r (by simp at hf; omega) hr
    cases hp : hasPhys (md m) with
    | true =>
      rw [List.append_assoc, readPhys_section f i (md m) a _ (hmd m) hp ha, hih]
      simp [physEntries, hp]
    | false =>
      have hemp : (md m).kv = none ∧ (md m).solids = [] := by
        simpa [hasPhys] using hp
      simp only [physSection, hemp, and_self, if_true, Except.ok.injEq] at ha
      subst ha
      have hih' := ih (i + 1) (f + 1) r (by simp at hf; omega) hr
      simp only [List.nil_append, List.map_cons, physEntries, hp, Bool.false_eq_true, if_false]
      exact hih'


def baseModel (m : BModelV) : BModelV := { m with kv := none, solids := [] }

theorem applyPhys_spec : ∀ (ms pre : List BModelV), (∀ m ∈ ms, m.ok) →
    applyPhys (physEntries pre.length ms) (pre ++ ms.map baseModel) = .ok (pre ++ ms) := by
  intro ms
  induction ms with
  | nil => intro pre _; simp [physEntries, applyPhys]
  | cons m ms ih =>
    intro pre hok
    have hm := hok m (by simp)
    have hrest := ih (pre ++ [m]) (fun x hx => hok x (by simp [hx]))
    simp only [List.length_append, List.length_singleton, List.append_assoc, List.cons_append, List.nil_append] at hrest
    cases hp : hasPhys m with
    | false =>
      have hemp : m.kv = none ∧ m.solids = [] := by simpa [hasPhys] using hp
      have hb : baseModel m = m := by cases m; simp_all [baseModel]
      simp only [physEntries, hp, Bool.false_eq_true, if_false, List.map_cons, hb]
      exact hrest
    | true =>
      have hkv : ∃ t, m.kv = some t := by
        cases hk : m.kv with
        | some t => exact ⟨t, rfl⟩
        | none =>
          exfalso
          by_cases hs : m.solids = []
          · simp [hasPhys, hk, hs] at hp
          · exact hm.1 hs hk
      obtain ⟨t, ht⟩ := hkv
      simp only [physEntries, hp, if_true, List.map_cons, applyPhys, physEntryOf]
      have hget : (pre ++ baseModel m :: ms.map baseModel)[pre.length]? = some (baseModel m) := by simp
      rw [hget]
      have hchk : ¬ ((baseModel m).solids ≠ [] ∨ (baseModel m).kv ≠ none) := by simp [baseModel]
      simp only [hchk, if_false]
      have hset : (pre ++ baseModel m :: ms.map baseModel).set pre.length
          { baseModel m with solids := m.solids, kv := some (m.kv.getD []) } = pre ++ m :: ms.map baseModel := by
        rw [List.set_append_right _ _ (Nat.le_refl _)]
        simp only [Nat.sub_self, List.set_cons_zero]
        congr 2
        cases m; simp_all [baseModel]
      rw [hset]
      exact hrest

def BModelSt.Inv (s : BModelSt) : Prop := s.fNode.Inv idKey

theorem writeBModelRecs_spec (md : Nat → BModelV) (h9 : ∀ x, (md x).floats.length = 9) : ∀ (ms : List Nat) (s : BModelSt), s.Inv →
    s.fNode.list <+: (writeBModelRecs true md s ms).2.fNode.list ∧ s.eFaces.list <+: (writeBModelRecs true md s ms).2.eFaces.list ∧
    ∀ fn ff, (writeBModelRecs true md s ms).2.fNode.list <+: fn → (writeBModelRecs true md s ms).2.eFaces.list <+: ff →
      readBModelRecs fn ff (writeBModelRecs true md s ms).1 = .ok (ms.map (fun x => baseModel (md x))) := by
  intro ms
  induction ms with
  | nil => intro s _; exact ⟨List.prefix_refl _, List.prefix_refl _, fun _ _ _ _ => rfl⟩
  | cons m ms ih =>
    intro s hs
    obtain ⟨i1, p1, r1⟩ := finder_res s.fNode hs (md m).node
    obtain ⟨p2, r2⟩ := efinder_res s.eFaces (md m).faces
    obtain ⟨q1, q2, rd⟩ := ih ⟨(s.fNode.call idKey (md m).node).2, (s.eFaces.call true idKey (md m).faces).2⟩ i1
    simp only [writeBModelRecs]
    refine ⟨p1.trans q1, p2.trans q2, ?_⟩
    intro fn ff h1 h2
    have hl := h9 m
    have ht : (((md m).floats.map Val.f32) ++ [Val.int ((s.fNode.call idKey (md m).node).1 : Nat),
        Val.int ((s.eFaces.call true idKey (md m).faces).1 : Nat), Val.int (md m).faces.length]).take 9 = (md m).floats.map Val.f32 := by
      rw [List.take_left' (by simp [hl])]
    have hd : (((md m).floats.map Val.f32) ++ [Val.int ((s.fNode.call idKey (md m).node).1 : Nat),
        Val.int ((s.eFaces.call true idKey (md m).faces).1 : Nat), Val.int (md m).faces.length]).drop 9 =
        [Val.int ((s.fNode.call idKey (md m).node).1 : Nat), Val.int ((s.eFaces.call true idKey (md m).faces).1 : Nat),
         Val.int (md m).faces.length] := by
      rw [List.drop_left' (by simp [hl])]
    simp only [readBModelRecs, readBModelRec, ht, hd, f32sOf_map, pyIdx_nat, r1 fn (q1.trans h1), Int.toNat_natCast,
      r2 ff (q2.trans h2), rd fn ff h1 h2, List.map_cons, baseModel]

/-- **Brush models + PHYSCOLLIDE.** The model list (worldspawn's model first, then the models of the
brush entities in first-use order), each with its bounds, head node, face slice, solids and text
section; the entity indices resolve to the entities' own models. -/
theorem bmodels_roundtrip (md : Nat → BModelV) (hmd : ∀ x, (md x).ok) (h9 : ∀ x, (md x).floats.length = 9)
    (nodes faces : List Nat) (world : Nat) (entModels idx ml nodes' faces' fn ff : List Nat)
    (recs : List (List Val)) (phys : Bytes) (fuel : Nat)
    (h : writeBModels true md nodes faces world entModels = .ok (idx, recs, phys, ml, nodes', faces'))
    (hfuel : ml.length < fuel) (hn : nodes' <+: fn) (hf : faces' <+: ff) :
    readBModels fuel fn ff recs phys = .ok (ml.map md) ∧ resolveArr ml idx = .ok entModels ∧
    ml[0]? = some world ∧ nodes <+: nodes' ∧ faces <+: faces' := by
  simp only [writeBModels] at h
  obtain ⟨ph, hph, h⟩ := bind_ok _ _ _ h
  obtain ⟨se, hse, h⟩ := map_ok _ _ _ h
  simp only [Prod.mk.injEq] at h
  obtain ⟨rfl, rfl, rfl, rfl, rfl, rfl⟩ := h
  obtain ⟨_, pm, _, rm⟩ := callAll_res entModels (Finder.mk' idKey [world]) (Finder.mk'_inv _ _)
  obtain ⟨p1, p2, rd⟩ := writeBModelRecs_spec md h9 (Finder.callAll idKey (Finder.mk' idKey [world]) entModels).2.list
    ⟨Finder.mk' idKey nodes, EFinder.mk' idKey faces⟩ (Finder.mk'_inv _ _)
  have hphys := readPhys_sections md hmd se [] hse _ 0 fuel ph hfuel hph
  simp only [List.append_nil] at hphys
  refine ⟨?_, rm _ (List.prefix_refl _), getElem?_of_prefix pm (by simp [Finder.mk']), p1, p2⟩
  unfold readBModels
  rw [rd fn ff hn hf, hphys]
  have := applyPhys_spec ((Finder.callAll idKey (Finder.mk' idKey [world]) entModels).2.list.map md) []
    (fun m hm => by obtain ⟨x, _, rfl⟩ := List.mem_map.mp hm; exact hmd x)
  simp only [List.length_nil, List.nil_append, List.map_map] at this
  exact this


/-! ## detail props -/

theorem rect_res (f : RectFinder) (hf : f.Inv rectKey) (x : List UInt32) :
    (f.call rectKey x).2.Inv rectKey ∧ f.list <+: (f.call rectKey x).2.list ∧
    ∀ L, (f.call rectKey x).2.list <+: L → L[(f.call rectKey x).1]? = some x := by
  have hs := Finder.call_spec rectKey f hf x
  obtain ⟨⟨y, hy, hk⟩, hp, hi⟩ := hs
  have : y = x := hk
  subst this
  exact ⟨hi, hp, fun L hL => getElem?_of_prefix hL hy⟩

def DetailSt.Inv (s : DetailSt) : Prop := s.fModel.Inv idKey ∧ s.fSprite.Inv rectKey

theorem readDetail_rec (d : DetailV) (h6 : d.f6.length = 6) (mdl : Nat) (dtype ang size : Int) (scale : UInt32) :
    f32sOf ((detailRec d mdl dtype ang size scale).take 6) = some d.f6 ∧
    (detailRec d mdl dtype ang size scale).drop 6 = [.int mdl, .int d.leaf, .int d.l0, .int d.l1, .int d.l2, .int d.l3, .int d.styles,
      .int d.styleCount, .int d.sway, .int ang, .int size, .int d.orient, .int dtype, .f32 scale] := by
  unfold detailRec
  rw [List.take_left' (by simp [h6]), List.drop_left' (by simp [h6]), f32sOf_map]
  exact ⟨rfl, rfl⟩

theorem writeDetail_spec (s : DetailSt) (hs : s.Inv) (d : DetailV) (h6 : d.f6.length = 6) :
    (writeDetail s d).2.Inv ∧ s.fModel.list <+: (writeDetail s d).2.fModel.list ∧ s.fSprite.list <+: (writeDetail s d).2.fSprite.list ∧
    ∀ models sprites, (writeDetail s d).2.fModel.list <+: models → (writeDetail s d).2.fSprite.list <+: sprites →
      readDetail models sprites (writeDetail s d).1 = .ok d := by
  obtain ⟨hM, hS⟩ := hs
  cases hk : d.kind with
  | model name =>
    obtain ⟨i1, p1, r1⟩ := finder_res s.fModel hM name
    simp only [writeDetail, hk]
    refine ⟨⟨i1, hS⟩, p1, List.prefix_refl _, ?_⟩
    intro models sprites h1 _
    obtain ⟨e1, e2⟩ := readDetail_rec d h6 (s.fModel.call idKey name).1 0 0 1 oneF
    simp only [readDetail, e1, e2, if_true, pyIdx_nat, r1 models h1]
    cases d; simp_all
  | sprite rect scale =>
    obtain ⟨i1, p1, r1⟩ := rect_res s.fSprite hS rect
    simp only [writeDetail, hk]
    refine ⟨⟨hM, i1⟩, List.prefix_refl _, p1, ?_⟩
    intro models sprites _ h2
    obtain ⟨e1, e2⟩ := readDetail_rec d h6 (s.fSprite.call rectKey rect).1 1 0 1 scale
    have c0 : ¬ ((1 : Int) = 0) := by decide
    simp only [readDetail, e1, e2, c0, if_false, if_true, pyGet_nat, r1 sprites h2]
    cases d; simp_all
  | shape rect scale cross ang size =>
    obtain ⟨i1, p1, r1⟩ := rect_res s.fSprite hS rect
    simp only [writeDetail, hk]
    refine ⟨⟨hM, i1⟩, List.prefix_refl _, p1, ?_⟩
    intro models sprites _ h2
    obtain ⟨e1, e2⟩ := readDetail_rec d h6 (s.fSprite.call rectKey rect).1 (if cross then 3 else 2) ang size scale
    cases cross with
    | true =>
      have c0 : ¬ ((3 : Int) = 0) := by decide
      have c1 : ¬ ((3 : Int) = 1) := by decide
      simp only [if_true] at e1 e2
      simp only [readDetail, if_true, e1, e2, c0, c1, if_false, or_true, pyGet_nat, r1 sprites h2]
      cases d; simp_all
    | false =>
      have c0 : ¬ ((2 : Int) = 0) := by decide
      have c1 : ¬ ((2 : Int) = 1) := by decide
      simp only [Bool.false_eq_true, if_false] at e1 e2
      simp only [readDetail, Bool.false_eq_true, if_false, e1, e2, c0, c1, true_or, if_true, pyGet_nat, r1 sprites h2]
      cases d; simp_all

theorem writeDetails_spec : ∀ (ds : List DetailV) (s : DetailSt), s.Inv → (∀ d ∈ ds, d.f6.length = 6) →
    s.fModel.list <+: (writeDetails s ds).2.fModel.list ∧ s.fSprite.list <+: (writeDetails s ds).2.fSprite.list ∧
    ∀ models sprites, (writeDetails s ds).2.fModel.list <+: models → (writeDetails s ds).2.fSprite.list <+: sprites →
      readDetails models sprites (writeDetails s ds).1 = .ok ds := by
  intro ds
  induction ds with
  | nil => intro s _ _; exact ⟨List.prefix_refl _, List.prefix_refl _, fun _ _ _ _ => rfl⟩
  | cons d ds ih =>
    intro s hs h6
    obtain ⟨i1, p1, p2, r1⟩ := writeDetail_spec s hs d (h6 d (by simp))
    obtain ⟨q1, q2, rd⟩ := ih _ i1 (fun x hx => h6 x (by simp [hx]))
    simp only [writeDetails]
    refine ⟨p1.trans q1, p2.trans q2, ?_⟩
    intro models sprites h1 h2
    simp only [readDetails, r1 models sprites (q1.trans h1) (q2.trans h2), rd models sprites h1 h2]

/-- **Detail props**: records, model-name dictionary and sprite table (both de-duplicated by value). -/
theorem details_roundtrip (ds : List DetailV) (h6 : ∀ d ∈ ds, d.f6.length = 6) (models : List Nat) (sprites : List (List UInt32))
    (h1 : (writeDetails ⟨Finder.mk' idKey [], Finder.mk' rectKey []⟩ ds).2.fModel.list <+: models)
    (h2 : (writeDetails ⟨Finder.mk' idKey [], Finder.mk' rectKey []⟩ ds).2.fSprite.list <+: sprites) :
    readDetails models sprites (writeDetails ⟨Finder.mk' idKey [], Finder.mk' rectKey []⟩ ds).1 = .ok ds :=
  (writeDetails_spec ds _ ⟨Finder.mk'_inv _ _, Finder.mk'_inv _ _⟩ h6).2.2 models sprites h1 h2

/-! ## static props: model indices and leaf-index array -/

theorem resolve_perm (L : List Nat) : ∀ {l1 l2 : List Nat}, l1.Perm l2 → ∀ xs, resolveArr L l1 = .ok xs →
    ∃ ys, resolveArr L l2 = .ok ys ∧ xs.Perm ys := by
  intro l1 l2 hp
  induction hp with
  | nil => intro xs h; exact ⟨xs, h, List.Perm.refl _⟩
  | @cons a la lb _ ih =>
    intro xs h
    simp only [resolveArr] at h
    cases h1 : L[a]? with
    | none => simp [h1] at h
    | some x =>
      cases h2 : resolveArr L la with
      | error e => simp [h1, h2] at h
      | ok r =>
        simp only [h1, h2, Except.ok.injEq] at h; subst h
        obtain ⟨ys, hy, hp'⟩ := ih r h2
        exact ⟨x :: ys, by simp only [resolveArr, h1, hy], hp'.cons x⟩
  | swap a b l =>
    intro xs h
    simp only [resolveArr] at h
    cases ha : L[a]? with
    | none => simp [ha] at h
    | some x =>
      cases hb : L[b]? with
      | none => simp [ha, hb] at h
      | some y =>
        cases hr : resolveArr L l with
        | error e => simp [ha, hb, hr] at h
        | ok r =>
          simp only [ha, hb, hr, Except.ok.injEq] at h; subst h
          exact ⟨x :: y :: r, by simp only [resolveArr, ha, hb, hr], List.Perm.swap x y r⟩
  | trans _ _ ih1 ih2 =>
    intro xs h
    obtain ⟨ys, hy, hp1⟩ := ih1 xs h
    obtain ⟨zs, hz, hp2⟩ := ih2 ys hy
    exact ⟨zs, hz, hp1.trans hp2⟩

/-- the reader's props agree with the written ones: same model, the same *set* of leafs -/
def propsAgree : List PropRefV → List PropRefV → Prop
  | [], [] => True
  | r :: rs, p :: ps => r.model = p.model ∧ r.leafs.Perm p.leafs ∧ propsAgree rs ps
  | _, _ => False

def PropIdxSt.Inv (s : PropIdxSt) : Prop := s.fModel.Inv idKey ∧ s.fLeaf.Inv idKey

theorem writePropIdx_spec : ∀ (ps : List PropRefV) (s : PropIdxSt), s.Inv →
    s.fModel.list <+: (writePropIdx s ps).2.fModel.list ∧ s.fLeaf.list <+: (writePropIdx s ps).2.fLeaf.list ∧
    ∃ newArr, (writePropIdx s ps).2.leafArray = s.leafArray ++ newArr ∧
      ∀ models leafs, (writePropIdx s ps).2.fModel.list <+: models → (writePropIdx s ps).2.fLeaf.list <+: leafs →
        ∃ objs, resolveArr leafs newArr = .ok objs ∧
          ∀ (pre post : List Nat), pre.length = s.leafArray.length →
            ∃ rs, readPropIdx models (pre ++ (objs ++ post)) (writePropIdx s ps).1 = .ok rs ∧ propsAgree rs ps := by
  intro ps
  induction ps with
  | nil =>
    intro s _
    refine ⟨List.prefix_refl _, List.prefix_refl _, [], by simp [writePropIdx], ?_⟩
    intro models leafs _ _
    exact ⟨[], rfl, fun _ _ _ => ⟨[], rfl, trivial⟩⟩
  | cons p ps ih =>
    intro s hs
    obtain ⟨hM, hL⟩ := hs
    obtain ⟨iM, pM, rM⟩ := finder_res s.fModel hM p.model
    obtain ⟨iL, pL, lL, rL⟩ := callAll_res p.leafs s.fLeaf hL
    obtain ⟨q1, q2, nA, eA, rd⟩ := ih ⟨(s.fModel.call idKey p.model).2, (Finder.callAll idKey s.fLeaf p.leafs).2,
      s.leafArray ++ (Finder.callAll idKey s.fLeaf p.leafs).1.mergeSort (fun a b => decide (a ≤ b))⟩ ⟨iM, iL⟩
    simp only [writePropIdx]
    refine ⟨pM.trans q1, pL.trans q2, (Finder.callAll idKey s.fLeaf p.leafs).1.mergeSort (fun a b => decide (a ≤ b)) ++ nA,
      by rw [eA]; simp, ?_⟩
    intro models leafs h1 h2
    obtain ⟨objs, ho, rdl⟩ := rd models leafs h1 h2
    have hperm := List.mergeSort_perm (Finder.callAll idKey s.fLeaf p.leafs).1 (fun a b => decide (a ≤ b))
    obtain ⟨ys, hy, hpy⟩ := resolve_perm leafs hperm.symm p.leafs (rL leafs (q2.trans h2))
    refine ⟨ys ++ objs, resolveArr_append _ _ _ _ _ hy ho, ?_⟩
    intro pre post hpre
    have hylen : ys.length = p.leafs.length := hpy.length_eq.symm
    obtain ⟨rs, hrs, hag⟩ := rdl (pre ++ ys) post (by
      simp only [List.length_append, hpre, hylen, List.length_mergeSort, lL])
    refine ⟨{ model := p.model, leafs := ys } :: rs, ?_, ⟨rfl, hpy.symm, hag⟩⟩
    simp only [readPropIdx, rM models (q1.trans h1)]
    have hsl : pySlice (pre ++ (ys ++ objs ++ post)) s.leafArray.length p.leafs.length = ys := by
      rw [← hpre, ← hylen, List.append_assoc]
      exact pySlice_mid pre ys (objs ++ post)
    simp only [List.append_assoc] at hrs hsl ⊢
    rw [hrs, hsl]

/-- **Static props: model dictionary and leaf-index array.** Every prop is read back with its model
name and, as a set, its leafs (the writer sorts each prop's leaf indices). -/
theorem propidx_roundtrip (visleafs models leafs : List Nat) (ps : List PropRefV)
    (h1 : (writePropIdx ⟨Finder.mk' idKey [], Finder.mk' idKey visleafs, []⟩ ps).2.fModel.list <+: models)
    (h2 : (writePropIdx ⟨Finder.mk' idKey [], Finder.mk' idKey visleafs, []⟩ ps).2.fLeaf.list <+: leafs) :
    ∃ leafList rs, resolveArr leafs (writePropIdx ⟨Finder.mk' idKey [], Finder.mk' idKey visleafs, []⟩ ps).2.leafArray = .ok leafList ∧
      readPropIdx models leafList (writePropIdx ⟨Finder.mk' idKey [], Finder.mk' idKey visleafs, []⟩ ps).1 = .ok rs ∧ propsAgree rs ps := by
  obtain ⟨_, _, nA, eA, rd⟩ := writePropIdx_spec ps ⟨Finder.mk' idKey [], Finder.mk' idKey visleafs, []⟩
    ⟨Finder.mk'_inv _ _, Finder.mk'_inv _ _⟩
  obtain ⟨objs, ho, rdl⟩ := rd models leafs h1 h2
  obtain ⟨rs, hrs, hag⟩ := rdl [] [] rfl
  simp only [List.nil_append] at eA
  exact ⟨objs, rs, by rw [eA]; exact ho, by simpa using hrs, hag⟩

end C11
