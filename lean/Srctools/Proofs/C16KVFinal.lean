import Srctools.Proofs.C16KVLex
import Srctools.Proofs.C16KVParse
import Srctools.Proofs.C16Plain
/-!
# C16 (iv) — composition: exported keyvalue / IO lines are read back as their normal form

`Env` collects the facts about tables, options and shape parameters (all decidable, discharged on the
current source in Props/C16.lean); `KvGood` / `IoGood` are the explicit, decidable conditions on a record
(identifier-shaped names, stable tags, value-type text that the lookup maps back, spawnflags without
default/description, spawnflag masks powers of two, choice names whose plain escape does not end in a
dangling backslash).  From these the lexing hypotheses (`KvLexOK`, every `Reads`/`LsOK`) and the parsing
hypotheses (`KvParseOK`) are derived, and the two halves are composed.
-/
namespace C16.KV
open Tok C16

/-- Environment facts (custom syntax on). -/
structure Env (T : Tables) (o : Opts) (P : ParseCfg) (c : ExpCfg) : Prop where
  hT : c.T = T
  tables : kvTablesOK T = true
  opts : optsOK o = true
  cfg : cfgOK c.long = true
  empty : c.long.emptyQuotes = true
  ext : c.ext = true
  cfgP : CfgParseOK P c

theorem fgdTables_of_kv {T : Tables} (h : kvTablesOK T = true) : fgdTablesOK T = true := by
  unfold kvTablesOK at h
  simp only [Bool.and_eq_true] at h
  exact h.1.1.1.1.1.1

section
variable {T : Tables} {o : Opts} {P : ParseCfg} {c : ExpCfg} (E : Env T o P c)
include E

theorem Env.lsOK_ext (s : Str) : LsOK c true s := by
  have h := ls_ext c.T (E.hT ▸ fgdTables_of_kv E.tables) c.long E.cfg E.empty s
  exact ⟨h.1, fun sec hs => (h.2.1 sec hs).1⟩

theorem Env.lsRead_ext (s : Str) : lsRead c true s = s :=
  (ls_ext c.T (E.hT ▸ fgdTables_of_kv E.tables) c.long E.cfg E.empty s).2.2

theorem Env.lsOK_plain {s : Str} (hs : plainOK s = true) : LsOK c false s := by
  have h := ls_plain c.T c.long E.cfg E.empty s hs
  exact ⟨h.1, fun sec hsec => (h.2.1 sec hsec).1⟩

theorem Env.lsRead_plain {s : Str} (hs : plainOK s = true) :
    lsRead c false s = decodeUnits c.T (plainEscape s) :=
  (ls_plain c.T c.long E.cfg E.empty s hs).2.2.1

omit E in
theorem lsPieces_ne_of {ext : Bool} {s : Str} (h : LsOK c ext s) : lsPieces c ext s ≠ [] := by
  intro h0
  exact h.1 (by simpa [lsPieces] using h0)

theorem Env.escFacts : EscFacts c.T :=
  _root_.Tok.escFacts (tokFacts (E.hT ▸ fgdTables_of_kv E.tables)).esc

theorem Env.quotedVal_ext (s : Str) : quotedVal c s = s := by
  unfold quotedVal fgdEscape
  rw [E.ext]
  exact (decodeUnits_escapeText E.escFacts false s).1

theorem Env.reads_quoted (s : Str) : Reads c.T (fgdEscape c.T c.ext s) (quotedVal c s) := by
  rw [E.quotedVal_ext]
  unfold fgdEscape
  rw [E.ext]
  exact reads_escape E.escFacts false s

end

/-- Explicit conditions on a keyvalue (all decidable for concrete data). -/
structure KvGood (T : Tables) (P : ParseCfg) (c : ExpCfg) (tags : List Str) (k : KVRec) : Prop where
  name : BareStr T k.name = true
  tagsL : TagsOK T c tags
  tagsP : TagsParseOK P c tags
  typ : TypeParseOK P c k.typ
  typ1 : '(' ∉ typeText c.tt k.typ
  typ2 : ')' ∉ typeText c.tt k.typ
  /-- the open finding `spawnflags-default-desc` is excluded -/
  sf : k.typ = c.tt.spawnflags → k.default = [] ∧ k.desc = []
  flags : k.typ = c.tt.spawnflags → ∀ f ∈ kvFlagsOf k,
    TagsOK T c f.tags ∧ TagsParseOK P c f.tags ∧ f.mask ≠ 0 ∧ 2 ^ Nat.log2 f.mask = f.mask
  choices : k.typ = c.tt.choices → ∀ ch ∈ kvChoicesOf k,
    plainOK (replaceNl ch.name) = true ∧ TagsOK T c ch.tags ∧ TagsParseOK P c ch.tags

structure IoGood (T : Tables) (P : ParseCfg) (c : ExpCfg) (tags : List Str) (io : IORec) : Prop where
  name : BareStr T io.name = true
  tagsL : TagsOK T c tags
  tagsP : TagsParseOK P c tags
  typ : (ioLookup P (c.tt.ioText.getD io.typ [])).isSome = true
  typ1 : '(' ∉ c.tt.ioText.getD io.typ []
  typ2 : ')' ∉ c.tt.ioText.getD io.typ []

section
variable {T : Tables} {o : Opts} {P : ParseCfg} {c : ExpCfg} (E : Env T o P c)
include E

theorem kvLexOK_of_good {tags : List Str} {k : KVRec} (G : KvGood T P c tags k) :
    KvLexOK T o c tags k where
  hT := E.hT
  tables := E.tables
  opts := E.opts
  name := G.name
  tags := G.tagsL
  typ1 := G.typ1
  typ2 := G.typ2
  disp := fun _ => by rw [E.ext]; exact E.lsOK_ext _
  dflt := fun _ => E.reads_quoted _
  desc := fun _ => by rw [E.ext]; exact E.lsOK_ext _
  flags := fun hs l hl f hf => by
    have hm : f ∈ kvFlagsOf k := by simp [kvFlagsOf, hl, hf]
    exact ⟨by rw [E.ext]; exact E.lsOK_ext _, (G.flags hs f hm).1⟩
  choices := fun _ hc l hl ch hch => by
    have hm : ch ∈ kvChoicesOf k := by simp [kvChoicesOf, hl, hch]
    obtain ⟨h1, h2, _⟩ := G.choices hc ch hm
    exact ⟨fun _ => E.reads_quoted _, E.lsOK_plain h1, h2⟩

theorem kvParseOK_of_good {tags : List Str} {k : KVRec} (G : KvGood T P c tags k) :
    KvParseOK P c tags k := by
  refine ⟨E.cfgP, G.tagsP, G.typ, ?_, ?_, G.sf, ?_, ?_⟩
  · intro _; rw [E.ext]; exact lsPieces_ne_of (E.lsOK_ext _)
  · intro _; rw [E.ext]; exact lsPieces_ne_of (E.lsOK_ext _)
  · intro hs f hf
    obtain ⟨_, h2, h3, h4⟩ := G.flags hs f hf
    exact ⟨h2, h3, h4, by rw [E.ext]; exact lsPieces_ne_of (E.lsOK_ext _)⟩
  · intro hc ch hch
    obtain ⟨h1, _, h3⟩ := G.choices hc ch hch
    exact ⟨h3, lsPieces_ne_of (E.lsOK_plain h1)⟩

/-- **Keyvalue line round trip.** The text `KVDef.export` writes tokenizes without error, and
`KVDef._parse` on those tokens (after the name token, which `EntityDef.parse` reads) returns the tags and
the normal form of the keyvalue, leaving the end of the input (for list types preceded by the line feed
after the closing bracket). -/
theorem kvdef_roundtrip (fold : Char → List Char) {tags : List Str} {k : KVRec} (G : KvGood T P c tags k) :
    (run T o fold (exportKV c tags k)).err = none ∧
    (tksOf (run T o fold (exportKV c tags k))).head? = some (.string, k.name) ∧
    parseKV P k.name (tksOf (run T o fold (exportKV c tags k))).tail
      = .ok ((tags, normKV P c k), kvRest c k [tkEof]) := by
  obtain ⟨hr, he⟩ := run_kv (fold := fold) (kvLexOK_of_good E G)
  refine ⟨he, by rw [hr]; simp [kvToks], ?_⟩
  rw [hr]
  have ht : (kvToks c tags k ++ [tkEof]).tail = (kvToks c tags k).tail ++ [tkEof] := by
    simp [kvToks]
  rw [ht, parse_kv (kvParseOK_of_good E G) (by decide)]
  simp [effTags, E.ext]

theorem ioLexOK_of_good {kw : Str} (hkw : kw = sInput ∨ kw = sOutput) {tags : List Str} {io : IORec}
    (G : IoGood T P c tags io) : IoLexOK T o c kw tags io where
  hT := E.hT
  tables := E.tables
  opts := E.opts
  kw := hkw
  name := G.name
  tags := G.tagsL
  typ1 := G.typ1
  typ2 := G.typ2
  desc := fun _ => by rw [E.ext]; exact E.lsOK_ext _

theorem ioParseOK_of_good {tags : List Str} {io : IORec} (G : IoGood T P c tags io) :
    IoParseOK P c tags io :=
  ⟨G.tagsP, G.typ, fun _ => by rw [E.ext]; exact lsPieces_ne_of (E.lsOK_ext _)⟩

/-- **Input / output line round trip.** -/
theorem iodef_roundtrip (fold : Char → List Char) {kw : Str} (hkw : kw = sInput ∨ kw = sOutput)
    {tags : List Str} {io : IORec} (G : IoGood T P c tags io) :
    (run T o fold (exportIO c kw tags io)).err = none ∧
    (tksOf (run T o fold (exportIO c kw tags io))).head? = some (.string, kw) ∧
    parseIO P (tksOf (run T o fold (exportIO c kw tags io))).tail
      = .ok ((tags, normIO P c io), [tkEof]) := by
  obtain ⟨hr, he⟩ := run_io (fold := fold) (ioLexOK_of_good E hkw G)
  refine ⟨he, by rw [hr]; simp [ioToks], ?_⟩
  rw [hr]
  have ht : (ioToks c kw tags io ++ [tkEof]).tail = (ioToks c kw tags io).tail ++ [tkEof] := by
    simp [ioToks]
  rw [ht, parse_io (ioParseOK_of_good E G) (by decide)]
  simp [effTags, E.ext]

/-- What is read back, spelled out for the fields written with custom syntax: long strings come back
unchanged, quoted defaults / choice values come back unchanged. -/
theorem normKV_fields (k : KVRec) :
    (normKV P c k).name = k.name ∧ (normKV P c k).typ = k.typ ∧
    (normKV P c k).readonly = k.readonly ∧ (normKV P c k).reportable = k.reportable ∧
    (normKV P c k).desc = k.desc ∧
    (normKV P c k).disp = (if k.typ = c.tt.spawnflags then k.name else k.disp) ∧
    (k.typ ≠ c.tt.bool → (normKV P c k).default = k.default) := by
  refine ⟨rfl, rfl, rfl, rfl, ?_, ?_, ?_⟩
  · show kvDescRead c k = k.desc
    unfold kvDescRead
    rw [E.ext, E.lsRead_ext]
    cases h : k.desc <;> simp
  · show (if k.typ = c.tt.spawnflags then k.name else lsRead c c.ext k.disp) = _
    rw [E.ext, E.lsRead_ext]
  · intro hb
    show (if k.typ = c.tt.bool then _ else kvDefaultRead c k) = k.default
    rw [if_neg hb]
    unfold kvDefaultRead kvD
    have : (k.default.isEmpty && decide (k.typ = c.tt.bool)) = false := by simp [hb]
    rw [this]
    simp only [Bool.false_eq_true, if_false]
    cases hd : k.default with
    | nil => simp
    | cons a b =>
      simp only [List.isEmpty_cons, Bool.false_eq_true, if_false, defaultTok]
      split
      · rfl
      · exact E.quotedVal_ext _

/-- A keyvalue of a type without list and other than boolean is read back IDENTICALLY. -/
theorem normKV_id {k : KVRec} (h1 : k.typ ≠ c.tt.spawnflags) (h2 : k.typ ≠ c.tt.choices)
    (h3 : k.typ ≠ c.tt.bool) (hv : k.vals = .none) : normKV P c k = k := by
  obtain ⟨_, _, _, _, e5, e6, e7⟩ := normKV_fields E k
  have e7' := e7 h3
  rw [if_neg h1] at e6
  cases k with
  | mk name typ disp default desc vals ro rep =>
    simp only at hv h1 h2 h3 e5 e6 e7'
    subst hv
    simp only [normKV, h1, h2, if_false] at e5 e6 e7' ⊢
    simp only [KVRec.mk.injEq, true_and, and_true]
    exact ⟨e6, e7', e5⟩

theorem normIO_desc (io : IORec) : (normIO P c io).desc = io.desc ∧ (normIO P c io).name = io.name := by
  refine ⟨?_, rfl⟩
  show (if io.desc.isEmpty then [] else lsRead c c.ext io.desc) = io.desc
  rw [E.ext, E.lsRead_ext]
  cases h : io.desc <;> simp

/-- **Entity body as a list of lines** (keyvalues, then inputs, then outputs; no `@resources`). -/
theorem entity_body_roundtrip (fold : Char → List Char) {items : List Item}
    (hgood : ∀ it ∈ items, match it with
      | .kv tags k => KvGood T P c tags k ∧ P.foldStr k.name ≠ sInput ∧ P.foldStr k.name ≠ sOutput ∧
          P.foldStr k.name ≠ sResources
      | .inp tags io => IoGood T P c tags io
      | .out tags io => IoGood T P c tags io)
    (hin : P.foldStr sInput = sInput) (hout : P.foldStr sOutput = sOutput) :
    (run T o fold (exportBody c items)).err = none ∧
    (let ts := tksOf (run T o fold (exportBody c items))
     parseBody P (ts.length + 1) ts [] = .ok ((bodyOrder items).map (normItem P c), [tkNl, tkEof])) := by
  have hlex : ∀ it ∈ items, ItemLexOK T o c it := by
    intro it hit
    have := hgood it hit
    cases it with
    | kv tags k => exact kvLexOK_of_good E this.1
    | inp tags io => exact ioLexOK_of_good E (Or.inl rfl) this
    | out tags io => exact ioLexOK_of_good E (Or.inr rfl) this
  have hpar : ∀ it ∈ items, ItemParseOK P c it := by
    intro it hit
    have := hgood it hit
    cases it with
    | kv tags k => exact ⟨kvParseOK_of_good E this.1, this.2⟩
    | inp tags io => exact ⟨ioParseOK_of_good E this, hin⟩
    | out tags io => exact ⟨ioParseOK_of_good E this, hout⟩
  obtain ⟨hr, he⟩ := run_body (fold := fold) E.tables E.opts hlex
  refine ⟨he, ?_⟩
  intro ts
  have hts : ts = bodyToks c items ++ [tkEof] := hr
  rw [hts]
  exact parse_body [tkEof] hpar _ (by omega)

end

end C16.KV
