import Srctools.Proofs.C13Refine
/-! Helper lemmas for C13, part 5: what `verify_all()` detects. -/
namespace C13

theorem verifyInfo_true_iff (crc : Bytes → Nat) (a : List (Nat × Bytes)) (f : Bytes) (i : Info) :
    verifyInfo crc a f i = .ok true ↔ ∃ d, readInfo a f i = .ok d ∧ crc d = i.crc := by
  unfold verifyInfo
  cases h : readInfo a f i with
  | error e => simp
  | ok d => simp

theorem verifyInfo_false_iff (crc : Bytes → Nat) (a : List (Nat × Bytes)) (f : Bytes) (i : Info) :
    verifyInfo crc a f i = .ok false ↔ ∃ d, readInfo a f i = .ok d ∧ crc d ≠ i.crc := by
  unfold verifyInfo
  cases h : readInfo a f i with
  | error e => simp
  | ok d => simp

theorem verifyAll_true_iff (crc : Bytes → Nat) (a : List (Nat × Bytes)) (f : Bytes) (l : List (Key × Info)) :
    verifyAll crc a f l = .ok true ↔ ∀ x ∈ l, ∃ d, readInfo a f x.2 = .ok d ∧ crc d = x.2.crc := by
  induction l with
  | nil => simp [verifyAll]
  | cons x xs ih =>
    obtain ⟨k, i⟩ := x
    simp only [verifyAll, List.mem_cons, forall_eq_or_imp]
    rw [← verifyInfo_true_iff, ← ih]
    cases hv : verifyInfo crc a f i with
    | error e => simp
    | ok b => cases b <;> simp

theorem verifyAll_false_iff (crc : Bytes → Nat) (a : List (Nat × Bytes)) (f : Bytes) (l : List (Key × Info))
    (hr : ∀ x ∈ l, ∃ d, readInfo a f x.2 = .ok d) :
    verifyAll crc a f l = .ok false ↔ ∃ x ∈ l, ∃ d, readInfo a f x.2 = .ok d ∧ crc d ≠ x.2.crc := by
  induction l with
  | nil => simp [verifyAll]
  | cons x xs ih =>
    obtain ⟨k, i⟩ := x
    have ih := ih (fun y hy => hr y (by simp [hy]))
    obtain ⟨d, hd⟩ := hr (k, i) (by simp)
    simp only [verifyAll, List.mem_cons, exists_eq_or_imp]
    rw [← verifyInfo_false_iff, ← ih]
    cases hv : verifyInfo crc a f i with
    | error e => simp [verifyInfo, hd] at hv
    | ok b => cases b <;> simp

end C13
