import Srctools.Proofs.C12
/-!
# C12 — writer OBJECTS used several times (histories)

If every path through `__exit__` resets `self.temp` (`Impl.resetTemp`), a writer object is back in its
initial state between uses (`cur = none` whenever it is idle), so `make_tempfile`'s stale clean-up is
never taken and **each use is a run of the fresh single-use machine `step` from `.mkdir`**
(`stepO_view`).  The single-use lemmas (`good_step`, `rg_step`, `step_event`) therefore lift to
histories: `goodO_step`, `rgO_step`, `Inv2O`/`inv2O_run`, `stepO2_event`.
-/
namespace C12

/-- The control point of the single-use machine an object is at (`idle` = about to `mkdir`). -/
def OState.pcView (o : OState) : PC :=
  match o.opc with
  | .idle => .mkdir
  | .run pc => pc

/-- An idle object with no use left never moves. -/
def OState.inert (c : OCfg) (o : OState) : Prop := o.opc = .idle ∧ ¬ o.use < c.uses.length

theorem cfgAt_impl (c : OCfg) (i : Nat) : (c.cfgAt i).impl = c.impl := by
  unfold OCfg.cfgAt; split <;> rfl

theorem cfgAt_dest (c : OCfg) (i : Nat) : (c.cfgAt i).dest = c.dest := by
  unfold OCfg.cfgAt; split <;> rfl

/-- What the destination may hold while use `i` is the next/current one: its initial contents or the
complete contents written by one of the earlier uses. -/
def Allowed (c : OCfg) (old0 : Option Bytes) (i : Nat) (b : Option Bytes) : Prop :=
  b = old0 ∨ ∃ j, j < i ∧ j < c.uses.length ∧ b = some (finalContent (c.cfgAt j).script)

theorem Allowed.mono {c : OCfg} {old0 b : Option Bytes} {i : Nat} (h : Allowed c old0 i b) :
    Allowed c old0 (i + 1) b := by
  rcases h with h | ⟨j, h1, h2, h3⟩
  · exact Or.inl h
  · exact Or.inr ⟨j, Nat.lt_succ_of_lt h1, h2, h3⟩

/-- `self.temp` may be set only while the temp file is open (body) or about to be closed. -/
def CurOK (cur : Option Nat) : PC → Prop
  | .body _ _ _ => True
  | .close _ _ => True
  | _ => cur = none

/-- Local invariant of a writer object: the current use satisfies the single-use invariant `Good`
for some allowed `old`; between uses the object is in its initial state. -/
def GoodO (c : OCfg) (old0 : Option Bytes) (fs : FS) (o : OState) : Prop :=
  ∃ old, Allowed c old0 o.use old ∧ Good (c.cfgAt o.use) old fs o.pcView ∧
    (match o.opc with
     | .idle => o.cur = none ∧
         (∀ out rest, o.outs = out :: rest → out = .ok →
            old = some (finalContent (c.cfgAt (o.use - 1)).script))
     | .run pc => CurOK o.cur pc ∧ (∀ out, pc ≠ .done out) ∧ o.use < c.uses.length)

/-! ## transitions of the single-use machine -/

def Succ : PC → PC → Prop
  | .mkdir, .create _ => True
  | .create _, .create _ => True
  | .create _, .done _ => True
  | .create _, .body _ _ _ => True
  | .create _, .close _ _ => True
  | .body _ _ _, .body _ _ _ => True
  | .body _ _ _, .close _ _ => True
  | .close _ _, .unlink _ _ _ => True
  | .close _ _, .replace _ => True
  | .close _ _, .done _ => True
  | .replace _, .done _ => True
  | .replace _, .unlink _ _ _ => True
  | .unlink _ _ _, .done _ => True
  | .done _, .done _ => True
  | _, _ => False

theorem succ_create_afterOp (cfg : Cfg) (m n k pos : Nat) : Succ (.create m) (afterOp cfg n k pos) := by
  unfold afterOp; split
  · simp [Succ]
  · split <;> simp [Succ]

theorem succ_body_afterOp (cfg : Cfg) (m a b n k pos : Nat) : Succ (.body m a b) (afterOp cfg n k pos) := by
  unfold afterOp; split
  · simp [Succ]
  · split <;> simp [Succ]

theorem step_succ (cfg : Cfg) (f : Fault) (fs : FS) (pc : PC) : Succ pc (step cfg f fs pc).2.1 := by
  cases pc with
  | mkdir => simp [step, Succ]
  | done o => simp [step, Succ]
  | create n =>
    cases f with
    | eexist => simp [step, Succ]
    | enoent => simp [step, Succ]
    | eio => simp [step, Succ]
    | none =>
      simp only [step]
      split
      · simp [Succ]
      · exact succ_create_afterOp _ _ _ _ _
  | body n k pos =>
    simp only [step]
    cases hop : cfg.script[k]? with
    | none => simp [Succ]
    | some op =>
      cases op with
      | write d =>
        simp only
        split
        · exact succ_body_afterOp _ _ _ _ _ _ _
        · simp [Succ]
      | seek p =>
        simp only
        split
        · exact succ_body_afterOp _ _ _ _ _ _ _
        · simp [Succ]
  | close n e =>
    simp only [step]
    split
    · cases e <;> simp [Succ]
    · split <;> simp [Succ]
  | replace n =>
    simp only [step]
    split
    · cases hg : get fs (.tmp n) with
      | none => simp only; split <;> simp [Succ]
      | some c => simp [Succ]
    · split <;> simp [Succ]
  | unlink n o sw =>
    simp only [step]
    split
    · cases hg : get fs (.tmp n) <;> simp [Succ]
    · split <;> simp [Succ]

/-! ## the object machine is the single-use machine, use after use -/

theorem stepO_view (c : OCfg) (f : Fault) (fs : FS) (o : OState)
    (hcur : o.opc = .idle → o.cur = none) (hact : ¬ o.inert c) :
    stepO c f fs o = afterStep c o o.pcView (step (c.cfgAt o.use) f fs o.pcView) := by
  obtain ⟨use, cur, opc, outs⟩ := o
  cases opc with
  | run pc => simp [stepO, OState.pcView]
  | idle =>
    have h1 : cur = none := hcur rfl
    have h2 : use < c.uses.length := by
      apply Classical.byContradiction; intro h; exact hact ⟨rfl, h⟩
    subst h1
    simp [stepO, OState.pcView, h2]

theorem stepO_inert (c : OCfg) (f : Fault) (fs : FS) (o : OState) (h : o.inert c) :
    stepO c f fs o = (fs, o, none) := by
  obtain ⟨use, cur, opc, outs⟩ := o
  obtain ⟨h1, h2⟩ := h
  simp only at h1 h2
  subst h1
  simp [stepO, h2]

theorem afterStep_fs (c : OCfg) (o : OState) (pc : PC) (r : FS × PC × Option Event) :
    (afterStep c o pc r).1 = r.1 := by
  unfold afterStep; split <;> rfl

theorem afterStep_event (c : OCfg) (o : OState) (pc : PC) (r : FS × PC × Option Event) :
    (afterStep c o pc r).2.2 = r.2.2 := by
  unfold afterStep; split <;> rfl

theorem afterStep_owns (c : OCfg) (o : OState) (pc : PC) (r : FS × PC × Option Event) :
    (afterStep c o pc r).2.1.pcView.owns = r.2.1.owns := by
  obtain ⟨fs', pc', ev⟩ := r
  cases pc' <;> simp [afterStep, OState.pcView, endUse, PC.owns]

/-- Book-keeping of `self.temp` along one transition, with `resetTemp`. -/
theorem cur_after (impl : Impl) (hr : impl.resetTemp = true) (cur : Option Nat) (pc pc' : PC)
    (hs : Succ pc pc') (hc : CurOK cur pc) :
    (∀ out, pc' = .done out → curAfter impl cur pc pc' = none) ∧
    ((∀ out, pc' ≠ .done out) → CurOK (curAfter impl cur pc pc') pc') := by
  cases pc <;> cases pc' <;> simp [Succ, CurOK, PC.owns, curAfter, hr] at hs hc ⊢ <;> simp [hc]

/-- **Own step of a writer object** (needs `resetTemp`): the object invariant is preserved; in
particular when a use ends the object is back in its initial state (`cur = none`). -/
theorem goodO_step (c : OCfg) (old0 : Option Bytes) (hr : c.impl.resetTemp = true)
    (hd : c.dest.isTmp = false) (f : Fault) (fs : FS) (o : OState) (h : GoodO c old0 fs o) :
    GoodO c old0 (stepO c f fs o).1 (stepO c f fs o).2.1 := by
  by_cases hin : o.inert c
  · rw [stepO_inert c f fs o hin]; exact h
  obtain ⟨old, hal, hg, hrest⟩ := h
  have hcur : o.opc = .idle → o.cur = none := by
    intro hi; rw [hi] at hrest; exact hrest.1
  rw [stepO_view c f fs o hcur hin]
  have hd' : (c.cfgAt o.use).dest.isTmp = false := by rw [cfgAt_dest]; exact hd
  have hg' := good_step (c.cfgAt o.use) old hd' f fs o.pcView hg
  have hs := step_succ (c.cfgAt o.use) f fs o.pcView
  have huse : o.use < c.uses.length := by
    cases hopc : o.opc with
    | idle => apply Classical.byContradiction; intro hlt; exact hin ⟨hopc, hlt⟩
    | run pc => rw [hopc] at hrest; exact hrest.2.2
  have hcok : CurOK o.cur o.pcView := by
    cases hopc : o.opc with
    | idle => simp [OState.pcView, hopc, CurOK, hcur hopc]
    | run pc => rw [hopc] at hrest; simpa [OState.pcView, hopc] using hrest.1
  have hca := cur_after c.impl hr o.cur o.pcView (step (c.cfgAt o.use) f fs o.pcView).2.1 hs hcok
  generalize step (c.cfgAt o.use) f fs o.pcView = r at hg' hs hca
  obtain ⟨fs', pc', ev⟩ := r
  simp only at hg' hs hca
  have hdest : ∀ b, Good (c.cfgAt o.use) old fs' (.done b) →
      get fs' c.dest = (match b with | .ok => some (finalContent (c.cfgAt o.use).script) | _ => old) := by
    intro b hb; cases b <;> simpa [Good, cfgAt_dest] using hb
  cases pc' with
  | done out =>
    have hnone := hca.1 out rfl
    have hdst := hdest out hg'
    simp only [OState.pcView] at hnone
    simp only [afterStep, endUse, GoodO, OState.pcView]
    cases out with
    | ok =>
      refine ⟨_, Or.inr ⟨o.use, Nat.lt_succ_self _, huse, rfl⟩, ?_, hnone, ?_⟩
      · simp only [Good, cfgAt_dest]; exact hdst
      · intro out rest _ _; simp
    | raisedBody =>
      refine ⟨old, hal.mono, ?_, hnone, ?_⟩
      · simp only [Good, cfgAt_dest]; exact hdst
      · intro out rest h1 h2; simp at h1; rw [← h1.1] at h2; cases h2
    | raisedOS =>
      refine ⟨old, hal.mono, ?_, hnone, ?_⟩
      · simp only [Good, cfgAt_dest]; exact hdst
      · intro out rest h1 h2; simp at h1; rw [← h1.1] at h2; cases h2
  | mkdir =>
    have hk := hca.2 (by intro out; simp)
    exact ⟨old, hal, hg', hk, by intro out; simp, huse⟩
  | create n =>
    have hk := hca.2 (by intro out; simp)
    exact ⟨old, hal, hg', hk, by intro out; simp, huse⟩
  | body n k pos =>
    have hk := hca.2 (by intro out; simp)
    exact ⟨old, hal, hg', hk, by intro out; simp, huse⟩
  | close n e =>
    have hk := hca.2 (by intro out; simp)
    exact ⟨old, hal, hg', hk, by intro out; simp, huse⟩
  | replace n =>
    have hk := hca.2 (by intro out; simp)
    exact ⟨old, hal, hg', hk, by intro out; simp, huse⟩
  | unlink n out sw =>
    have hk := hca.2 (by intro out; simp)
    exact ⟨old, hal, hg', hk, by intro out; simp, huse⟩

/-! ## two writer objects -/

structure TwoOKO (c1 c2 : OCfg) : Prop where
  x1 : c1.impl.exclusive = true
  x2 : c2.impl.exclusive = true
  r1 : c1.impl.resetTemp = true
  r2 : c2.impl.resetTemp = true
  d1 : c1.dest.isTmp = false
  d2 : c2.dest.isTmp = false
  ne : c1.dest ≠ c2.dest

/-- Object `a` performs an operation while object `b` stands still. -/
theorem rgO_step (ca cb : OCfg) (olda oldb : Option Bytes) (hxa : ca.impl.exclusive = true)
    (hra : ca.impl.resetTemp = true) (hda : ca.dest.isTmp = false) (hdb : cb.dest.isTmp = false)
    (hne : ca.dest ≠ cb.dest) (f : Fault) (fs : FS) (oa ob : OState)
    (ga : GoodO ca olda fs oa) (gb : GoodO cb oldb fs ob)
    (disj : ∀ n1 n2, oa.pcView.owns = some n1 → ob.pcView.owns = some n2 → n1 ≠ n2) :
    GoodO ca olda (stepO ca f fs oa).1 (stepO ca f fs oa).2.1 ∧
    GoodO cb oldb (stepO ca f fs oa).1 ob ∧
    (∀ n1 n2, (stepO ca f fs oa).2.1.pcView.owns = some n1 → ob.pcView.owns = some n2 → n1 ≠ n2) ∧
    (∀ x : Name, x.isTmp = false → x ≠ ca.dest → get (stepO ca f fs oa).1 x = get fs x) := by
  refine ⟨goodO_step ca olda hra hda f fs oa ga, ?_⟩
  by_cases hin : oa.inert ca
  · rw [stepO_inert ca f fs oa hin]; exact ⟨gb, disj, fun _ _ _ => rfl⟩
  obtain ⟨a, _, hga, hresta⟩ := ga
  obtain ⟨b, halb, hgb, hrestb⟩ := gb
  have hcur : oa.opc = .idle → oa.cur = none := by
    intro hi; rw [hi] at hresta; exact hresta.1
  rw [stepO_view ca f fs oa hcur hin, afterStep_fs, afterStep_owns]
  have hxa' : (ca.cfgAt oa.use).impl.exclusive = true := by rw [cfgAt_impl]; exact hxa
  have hda' : (ca.cfgAt oa.use).dest.isTmp = false := by rw [cfgAt_dest]; exact hda
  have hdb' : (cb.cfgAt ob.use).dest.isTmp = false := by rw [cfgAt_dest]; exact hdb
  have hne' : (ca.cfgAt oa.use).dest ≠ (cb.cfgAt ob.use).dest := by rw [cfgAt_dest, cfgAt_dest]; exact hne
  obtain ⟨_, h2, h3, h4⟩ := rg_step (ca.cfgAt oa.use) (cb.cfgAt ob.use) a b hxa' hda' hdb' hne' f fs
    oa.pcView ob.pcView hga hgb disj
  refine ⟨⟨b, halb, h2, hrestb⟩, h3, ?_⟩
  intro x hx hxd
  exact h4 x hx (by rw [cfgAt_dest]; exact hxd)

structure Inv2O (c1 c2 : OCfg) (fs0 : FS) (s : SysO) : Prop where
  g1 : GoodO c1 (get fs0 c1.dest) s.fs s.o1
  g2 : GoodO c2 (get fs0 c2.dest) s.fs s.o2
  disj : ∀ n1 n2, s.o1.pcView.owns = some n1 → s.o2.pcView.owns = some n2 → n1 ≠ n2
  frame : ∀ x : Name, x.isTmp = false → x ≠ c1.dest → x ≠ c2.dest → get s.fs x = get fs0 x

theorem goodO_init (c : OCfg) (fs0 : FS) : GoodO c (get fs0 c.dest) fs0 OState.init := by
  refine ⟨get fs0 c.dest, Or.inl rfl, ?_, rfl, ?_⟩
  · simp only [OState.init, OState.pcView, Good, cfgAt_dest]
  · intro out rest h; simp [OState.init] at h

theorem inv2O_init (c1 c2 : OCfg) (fs0 : FS) : Inv2O c1 c2 fs0 (SysO.init fs0) :=
  ⟨goodO_init c1 fs0, goodO_init c2 fs0,
   by intro n1 n2 h; simp [SysO.init, OState.init, OState.pcView, PC.owns] at h, fun _ _ _ _ => rfl⟩

theorem inv2O_step {c1 c2 : OCfg} (ok : TwoOKO c1 c2) {fs0 : FS} (who : Bool) (f : Fault) {s : SysO}
    (h : Inv2O c1 c2 fs0 s) : Inv2O c1 c2 fs0 (stepO2 c1 c2 who f s) := by
  cases who with
  | false =>
    obtain ⟨a, b, c, d⟩ := rgO_step c1 c2 _ _ ok.x1 ok.r1 ok.d1 ok.d2 ok.ne f s.fs s.o1 s.o2 h.g1 h.g2 h.disj
    exact ⟨a, b, c, fun x hx h1 h2 => (d x hx h1).trans (h.frame x hx h1 h2)⟩
  | true =>
    obtain ⟨a, b, c, d⟩ := rgO_step c2 c1 _ _ ok.x2 ok.r2 ok.d2 ok.d1 (fun e => ok.ne e.symm) f s.fs s.o2 s.o1
      h.g2 h.g1 (fun n1 n2 h1 h2 e => h.disj n2 n1 h2 h1 e.symm)
    exact ⟨b, a, fun n1 n2 h1 h2 e => c n2 n1 h2 h1 e.symm,
      fun x hx h1 h2 => (d x hx h2).trans (h.frame x hx h1 h2)⟩

theorem inv2O_run {c1 c2 : OCfg} (ok : TwoOKO c1 c2) {fs0 : FS} (sched : List (Bool × Fault)) :
    ∀ {s : SysO}, Inv2O c1 c2 fs0 s → Inv2O c1 c2 fs0 (runO2 c1 c2 sched s) := by
  induction sched with
  | nil => intro s h; exact h
  | cons p rest ih => intro s h; obtain ⟨w, f⟩ := p; exact ih (inv2O_step ok w f h)

/-- The event of an object's step is an event of the single-use machine at its current use. -/
theorem stepO_event (c : OCfg) (hx : c.impl.exclusive = true) (old0 : Option Bytes) (f : Fault) (fs : FS)
    (o : OState) (g : GoodO c old0 fs o) (e : Event) (h : (stepO c f fs o).2.2 = some e) (n : Nat)
    (ht : e.op.target = some n) :
    o.pcView.owns = some n ∨ (e.op = .create n ∧ (e.res = .ok → get fs (.tmp n) = none)) := by
  by_cases hin : o.inert c
  · rw [stepO_inert c f fs o hin] at h; cases h
  obtain ⟨_, _, _, hrest⟩ := g
  have hcur : o.opc = .idle → o.cur = none := by
    intro hi; rw [hi] at hrest; exact hrest.1
  rw [stepO_view c f fs o hcur hin, afterStep_event] at h
  have hx' : (c.cfgAt o.use).impl.exclusive = true := by rw [cfgAt_impl]; exact hx
  rcases step_event (c.cfgAt o.use) hx' f fs o.pcView e h n ht with h1 | ⟨_, h2, h3⟩
  · exact Or.inl h1
  · exact Or.inr ⟨h2, h3⟩

theorem goodO_owns_isSome {c : OCfg} {old0 : Option Bytes} {fs : FS} {o : OState} {n : Nat}
    (g : GoodO c old0 fs o) (ho : o.pcView.owns = some n) : (get fs (.tmp n)).isSome = true := by
  obtain ⟨_, _, hg, _⟩ := g
  exact good_owns_isSome hg ho

theorem stepO2_event {c1 c2 : OCfg} (ok : TwoOKO c1 c2) {fs0 : FS} {s : SysO} (h : Inv2O c1 c2 fs0 s)
    (who : Bool) (f : Fault) (e : Event)
    (he : (stepO2 c1 c2 who f s).trace = (who, e) :: s.trace) (n : Nat) (ht : e.op.target = some n)
    (hown : (if who then s.o1 else s.o2).pcView.owns = some n) :
    e.op = .create n ∧ e.res ≠ .ok := by
  cases who with
  | false =>
    simp only [stepO2, Bool.false_eq_true, if_false] at he hown
    have hev : (stepO c1 f s.fs s.o1).2.2 = some e := by
      cases hr : (stepO c1 f s.fs s.o1).2.2 with
      | none => rw [hr] at he; exact absurd he.symm (List.cons_ne_self _ _)
      | some e' => rw [hr] at he; simp at he; rw [he]
    rcases stepO_event c1 ok.x1 _ f s.fs s.o1 h.g1 e hev n ht with h1 | ⟨h2, h3⟩
    · exact absurd rfl (h.disj _ _ h1 hown)
    · refine ⟨h2, fun hok => ?_⟩
      have := goodO_owns_isSome h.g2 hown
      rw [h3 hok] at this; simp at this
  | true =>
    simp only [stepO2, if_true] at he hown
    have hev : (stepO c2 f s.fs s.o2).2.2 = some e := by
      cases hr : (stepO c2 f s.fs s.o2).2.2 with
      | none => rw [hr] at he; exact absurd he.symm (List.cons_ne_self _ _)
      | some e' => rw [hr] at he; simp at he; rw [he]
    rcases stepO_event c2 ok.x2 _ f s.fs s.o2 h.g2 e hev n ht with h1 | ⟨h2, h3⟩
    · exact absurd rfl (h.disj _ _ hown h1)
    · refine ⟨h2, fun hok => ?_⟩
      have := goodO_owns_isSome h.g1 hown
      rw [h3 hok] at this; simp at this

/-- What the invariant says about the destination. -/
theorem goodO_dest {c : OCfg} {old0 : Option Bytes} {fs : FS} {o : OState} (g : GoodO c old0 fs o) :
    (get fs c.dest = old0 ∨
      ∃ j, j < o.use ∧ j < c.uses.length ∧ get fs c.dest = some (finalContent (c.cfgAt j).script)) ∧
    (o.opc = .idle → o.cur = none) ∧
    (o.opc = .idle → ∀ out rest, o.outs = out :: rest → out = .ok →
      get fs c.dest = some (finalContent (c.cfgAt (o.use - 1)).script)) := by
  obtain ⟨old, hal, hg, hrest⟩ := g
  have hnd : ∀ out, o.pcView ≠ .done out := by
    intro out
    cases hopc : o.opc with
    | idle => simp [OState.pcView, hopc]
    | run pc => rw [hopc] at hrest; simpa [OState.pcView, hopc] using hrest.2.1 out
  have hd : get fs c.dest = old := by
    have := (good_dest hg).2 (hnd _)
    rwa [cfgAt_dest] at this
  refine ⟨?_, ?_, ?_⟩
  · rw [hd]; exact hal
  · intro hi; rw [hi] at hrest; exact hrest.1
  · intro hi out rest h1 h2; rw [hi] at hrest; rw [hd]; exact hrest.2 out rest h1 h2

end C12
