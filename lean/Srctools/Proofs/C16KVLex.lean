import Srctools.Proofs.C16KVSpec
import Srctools.Gen.Tok
/-!
# C16 (iv) — the exported keyvalue / IO lines lex to the claimed token sequences

`LexesTo T o fold frag tks ok`: from any tokenizer state at a token boundary (`lastCr = false`), the text
`frag` followed by any `tail` satisfying `ok` is consumed by `runAux` producing exactly the tokens `tks`
(kinds and values; the line numbers are existential), ending again at a token boundary in front of `tail`.

Final theorems: `lex_kv`, `lex_io`, `lex_body`, `run_of_lexes`, `run_kv`, `run_io`, `run_body`.
-/
namespace C16.KV
open Tok C16

/-! ## framework -/

/-- What `tksOf` does to the observations. -/
def obsTks (obs : List Obs) : List Tk :=
  obs.filterMap fun o => (Kind.ofCode o.kind).map fun k => (k, o.value)

theorem tksOf_eq (r : Run) : tksOf r = obsTks r.toks := rfl

theorem obsTks_append (a b : List Obs) : obsTks (a ++ b) = obsTks a ++ obsTks b :=
  List.filterMap_append

theorem ofCode_code (k : Kind) : Kind.ofCode k.code = some k := by cases k <;> rfl

theorem obsTks_single (k : Kind) (v : Str) (l : Nat) : obsTks [⟨k.code, v, l⟩] = [(k, v)] := by
  simp [obsTks, ofCode_code]

/-- `frag` lexes to `tks` from any state at a token boundary, provided what follows satisfies `ok`.
Every token consumes at least one character (first conjunct; needed for the fuel of `run`). -/
def LexesTo (T : Tables) (o : Opts) (fold : Char → List Char) (frag : Str) (tks : List Tk)
    (ok : Str → Prop) : Prop :=
  tks.length ≤ frag.length ∧
  ∀ st : St, st.lastCr = false → ∀ tail, ok tail →
    ∃ (st' : St) (obs : List Obs), st'.lastCr = false ∧ obsTks obs = tks ∧
      ∀ n acc, runAux T o fold (n + tks.length) st (frag ++ tail) acc
        = runAux T o fold n st' tail (obs.reverse ++ acc)

/-- Anything may follow. -/
abbrev anyTail : Str → Prop := fun _ => True

section
variable {T : Tables} {o : Opts} {fold : Char → List Char}

theorem LexesTo.nil (ok : Str → Prop) : LexesTo T o fold [] [] ok :=
  ⟨Nat.le_refl _, fun st hst _ _ => ⟨st, [], hst, rfl, fun _ _ => rfl⟩⟩

theorem LexesTo.mono {frag : Str} {tks : List Tk} {ok ok' : Str → Prop}
    (h : LexesTo T o fold frag tks ok) (himp : ∀ t, ok' t → ok t) : LexesTo T o fold frag tks ok' :=
  ⟨h.1, fun st hst tail ht => h.2 st hst tail (himp tail ht)⟩

/-- Sequencing: what follows `A` is `B ++ tail`. -/
theorem LexesTo.seq {A B : Str} {tA tB : List Tk} {okA okB : Str → Prop}
    (hA : LexesTo T o fold A tA okA) (hB : LexesTo T o fold B tB okB)
    (h : ∀ tail, okB tail → okA (B ++ tail)) : LexesTo T o fold (A ++ B) (tA ++ tB) okB := by
  refine ⟨by simp only [List.length_append]; have := hA.1; have := hB.1; omega, ?_⟩
  intro st hst tail htail
  obtain ⟨st1, obs1, hst1, ho1, hr1⟩ := hA.2 st hst (B ++ tail) (h tail htail)
  obtain ⟨st2, obs2, hst2, ho2, hr2⟩ := hB.2 st1 hst1 tail htail
  refine ⟨st2, obs1 ++ obs2, hst2, by rw [obsTks_append, ho1, ho2], ?_⟩
  intro n acc
  rw [List.length_append, show n + (tA.length + tB.length) = (n + tB.length) + tA.length by omega,
    List.append_assoc, hr1, hr2, List.reverse_append, List.append_assoc]

/-- Sequencing when anything may follow the first fragment. -/
theorem LexesTo.seq' {A B : Str} {tA tB : List Tk} {okB : Str → Prop}
    (hA : LexesTo T o fold A tA anyTail) (hB : LexesTo T o fold B tB okB) :
    LexesTo T o fold (A ++ B) (tA ++ tB) okB :=
  hA.seq hB (fun _ _ => trivial)

theorem LexesTo.flatMap {α : Type} (f : α → Str) (g : α → List Tk) :
    ∀ (l : List α), (∀ x ∈ l, LexesTo T o fold (f x) (g x) anyTail) →
      LexesTo T o fold (l.flatMap f) (l.flatMap g) anyTail := by
  intro l
  induction l with
  | nil => intro _; exact LexesTo.nil _
  | cons x xs ih =>
    intro h
    simp only [List.flatMap_cons]
    exact (h x (by simp)).seq' (ih (fun y hy => h y (by simp [hy])))

theorem LexesTo.cast {frag frag' : Str} {tks tks' : List Tk} {ok : Str → Prop}
    (h : LexesTo T o fold frag tks ok) (hf : frag' = frag) (ht : tks' = tks) :
    LexesTo T o fold frag' tks' ok := by subst hf; subst ht; exact h

/-- Closing lemma: a fragment that may stand at the end of the input is a whole run. -/
theorem run_of_lexes {frag : Str} {tks : List Tk} {ok : Str → Prop}
    (h : LexesTo T o fold frag tks ok) (hok : ok []) :
    tksOf (run T o fold frag) = tks ++ [tkEof] ∧ (run T o fold frag).err = none := by
  obtain ⟨hlen, h⟩ := h
  obtain ⟨st', obs, _, hobs, hr⟩ := h {} rfl [] hok
  unfold run
  obtain ⟨m, hm⟩ : ∃ m, frag.length + 2 = (m + 1) + tks.length :=
    ⟨frag.length + 1 - tks.length, by omega⟩
  have := hr (m + 1) []
  rw [List.append_nil] at this
  rw [hm, this, runAux_eof (nextToken_eof o fold _ _)]
  refine ⟨?_, rfl⟩
  rw [tksOf_eq]
  simp only [List.append_nil, List.reverse_cons, List.reverse_reverse]
  rw [obsTks_append, hobs]
  rfl

/-- One token from one `nextToken` call. -/
theorem LexesTo.single {frag : Str} {k : Kind} {v : Str} {ok : Str → Prop} (hk : k ≠ .eof)
    (hlen : 1 ≤ frag.length)
    (h : ∀ st : St, st.lastCr = false → ∀ tail, ok tail → ∃ st' : St, st'.lastCr = false ∧
      nextToken T o fold ((frag ++ tail).length + 1) st (frag ++ tail) = .tok k v st' tail) :
    LexesTo T o fold frag [(k, v)] ok := by
  refine ⟨hlen, ?_⟩
  intro st hst tail htail
  obtain ⟨st', hst', hn⟩ := h st hst tail htail
  refine ⟨st', [⟨k.code, v, st'.line⟩], hst', obsTks_single k v _, ?_⟩
  intro n acc
  exact runAux_step hn hk n acc

/-- Blanks produce no token. -/
theorem runAux_blanks (K : TokFacts T) (ws : Str) (hws : ∀ c ∈ ws, c = ' ' ∨ c = '\t') (n : Nat)
    (st : St) (hst : st.lastCr = false) (tail : Str) (acc : List Obs) :
    runAux T o fold n st (ws ++ tail) acc = runAux T o fold n st tail acc := by
  cases n with
  | zero => rfl
  | succ n =>
    rw [runAux, runAux]
    have : (ws ++ tail).length + 1 = (tail.length + 1) + ws.length := by
      simp only [List.length_append]; omega
    rw [this, nextToken_blanks K o fold ws hws _ st hst]

theorem LexesTo.blanks (K : TokFacts T) (ws : Str) (hws : ∀ c ∈ ws, c = ' ' ∨ c = '\t')
    (ok : Str → Prop) : LexesTo T o fold ws [] ok :=
  ⟨Nat.zero_le _, fun st hst tail _ =>
    ⟨st, [], hst, rfl, fun n acc => runAux_blanks K ws hws n st hst tail acc⟩⟩

end

/-! ## table / option facts -/

/-- The options of `FGD.parse_file` as far as they matter (`allowStarComments` is free). -/
def optsOK (o : Opts) : Bool :=
  o.allowEscapes && o.plusOperator && o.colonOperator && !o.stringBracket && o.stringParens
    && !o.preserveComments

structure OptsOK (o : Opts) : Prop where
  esc : o.allowEscapes = true
  plus : o.plusOperator = true
  colon : o.colonOperator = true
  brack : o.stringBracket = false
  parens : o.stringParens = true
  noCom : o.preserveComments = false

theorem optsFacts {o : Opts} (h : optsOK o = true) : OptsOK o := by
  unfold optsOK at h
  simp only [Bool.and_eq_true, Bool.not_eq_true'] at h
  exact ⟨h.1.1.1.1.1, h.1.1.1.1.2, h.1.1.1.2, h.1.1.2, h.1.2, h.2⟩

/-- The characters that go another way in `_get_token` before the bare-string case. -/
def headSpecial : Str :=
  ['\r', '\n', ' ', '\t', '/', '"', '[', '(', Char.ofNat 0xFEFF, ':', '+', ']', ')', '#']

/-- `c` can start a bare string (colon / plus operators on). -/
def bareHead (T : Tables) (c : Char) : Bool :=
  (T.operator c).isNone && !T.bareDisallowed.contains c && !headSpecial.contains c

/-- `c` continues a bare string (colon / plus operators on). -/
def bareCont (T : Tables) (c : Char) : Bool :=
  !(T.bareDisallowed.contains c || c == ':' || c == '+')

/-- A text that is read as one bare STRING token when followed by a bare-string terminator. -/
def BareStr (T : Tables) : Str → Bool
  | [] => false
  | c :: t => bareHead T c && t.all (bareCont T)

/-- What may follow a bare string: nothing, or a character that ends it. -/
def bareOk (T : Tables) : Str → Prop
  | [] => True
  | c :: _ => bareCont T c = false

/-- Decidable requirements on the tokenizer tables. -/
def kvTablesOK (T : Tables) : Bool :=
  fgdTablesOK T &&
  decide (T.operator '=' = some .equals) && decide (T.operator ',' = some .comma) &&
  [':', '[', ']', '(', '/'].all (fun c => (T.operator c).isNone) &&
  ['[', '(', ',', ']', ' ', '\n'].all (fun c => T.bareDisallowed.contains c) &&
  numberChars.all (fun c => bareHead T c && bareCont T c) &&
  [sReadonly, sReport, sInput, sOutput].all (BareStr T)

structure KvTables (T : Tables) : Prop where
  tok : TokFacts T
  eq : T.operator '=' = some .equals
  comma : T.operator ',' = some .comma
  colon : T.operator ':' = none
  bo : T.operator '[' = none
  bc : T.operator ']' = none
  po : T.operator '(' = none
  slash : T.operator '/' = none
  endBo : bareCont T '[' = false
  endPo : bareCont T '(' = false
  endComma : bareCont T ',' = false
  endBc : bareCont T ']' = false
  endSp : bareCont T ' ' = false
  endNl : bareCont T '\n' = false
  num : ∀ c ∈ numberChars, bareHead T c = true ∧ bareCont T c = true
  ro : BareStr T sReadonly = true
  rep : BareStr T sReport = true
  inp : BareStr T sInput = true
  out : BareStr T sOutput = true

theorem kvTables {T : Tables} (h : kvTablesOK T = true) : KvTables T := by
  unfold kvTablesOK at h
  simp only [Bool.and_eq_true, List.all_cons, List.all_nil, Bool.and_true, decide_eq_true_eq,
    Option.isNone_iff_eq_none] at h
  obtain ⟨⟨⟨⟨⟨⟨h1, h2⟩, h3⟩, h4⟩, h5⟩, h6⟩, h7⟩ := h
  have hb : ∀ c, T.bareDisallowed.contains c = true → bareCont T c = false := by
    intro c hc; simp only [bareCont, hc, Bool.true_or, Bool.not_true]
  refine ⟨tokFacts h1, h2, h3, h4.1, h4.2.1, h4.2.2.1, h4.2.2.2.1, h4.2.2.2.2, hb _ h5.1, hb _ h5.2.1,
    hb _ h5.2.2.1, hb _ h5.2.2.2.1, hb _ h5.2.2.2.2.1, hb _ h5.2.2.2.2.2, ?_, h7.1, h7.2.1, h7.2.2.1,
    h7.2.2.2⟩
  intro c hc
  have := (List.all_eq_true.mp h6) c hc
  simpa using this

theorem bareCont_colon (T : Tables) : bareCont T ':' = false := by simp [bareCont]

theorem isBareEnd_eq {T : Tables} {o : Opts} (O : OptsOK o) (c : Char) :
    isBareEnd T o c = !bareCont T c := by
  simp [isBareEnd, bareCont, O.colon, O.plus]

theorem bareOk_cons {T : Tables} {c : Char} (h : bareCont T c = false) (r tail : Str) :
    bareOk T ((c :: r) ++ tail) := h

/-! ## sub-scanners -/

section
variable {T : Tables} {o : Opts} {fold : Char → List Char}

theorem scanBare_bare (O : OptsOK o) : ∀ (s acc tail : Str), (∀ c ∈ s, bareCont T c = true) →
    bareOk T tail → scanBare T o (fun x => [x]) (s ++ tail) acc = (acc.reverse ++ s, tail) := by
  intro s
  induction s with
  | nil =>
    intro acc tail _ ht
    cases tail with
    | nil => simp [scanBare]
    | cons c t =>
      have : isBareEnd T o c = true := by rw [isBareEnd_eq O]; simpa [bareOk] using ht
      rw [List.nil_append, scanBare]
      simp [this]
  | cons x s ih =>
    intro acc tail hs ht
    have hx : isBareEnd T o x = false := by rw [isBareEnd_eq O]; simp [hs x (by simp)]
    rw [List.cons_append, scanBare]
    simp only [hx, Bool.false_eq_true, if_false]
    rw [ih _ _ (fun c hc => hs c (by simp [hc])) ht]
    simp

theorem scanParen_inner : ∀ (inner acc rest : Str) (line : Nat), '(' ∉ inner → ')' ∉ inner →
    ∃ line', scanParen (inner ++ ')' :: rest) acc line = .ok (acc.reverse ++ inner) line' rest := by
  intro inner
  induction inner with
  | nil => intro acc rest line _ _; exact ⟨line, by simp [scanParen]⟩
  | cons x s ih =>
    intro acc rest line h1 h2
    have hx1 : x ≠ '(' := fun h => h1 (by simp [h])
    have hx2 : x ≠ ')' := fun h => h2 (by simp [h])
    have hs1 : '(' ∉ s := fun h => h1 (by simp [h])
    have hs2 : ')' ∉ s := fun h => h2 (by simp [h])
    rw [List.cons_append, scanParen]
    simp only [hx1, hx2, if_false]
    by_cases hn : x = '\n'
    · obtain ⟨l', hl⟩ := ih (x :: acc) rest (line + 1) hs1 hs2
      exact ⟨l', by simp [hn] at hl ⊢; exact hl⟩
    · obtain ⟨l', hl⟩ := ih (x :: acc) rest line hs1 hs2
      exact ⟨l', by simp [hn] at hl ⊢; exact hl⟩

theorem scanLineComment_text : ∀ (text acc rest : Str), '\n' ∉ text →
    scanLineComment (text ++ '\n' :: rest) acc = (acc.reverse ++ text, '\n' :: rest) := by
  intro text
  induction text with
  | nil => intro acc rest _; simp [scanLineComment]
  | cons x s ih =>
    intro acc rest h
    have hx : x ≠ '\n' := fun e => h (by simp [e])
    rw [List.cons_append, scanLineComment]
    simp only [hx, if_false]
    rw [ih _ _ (fun e => h (by simp [e]))]
    simp

end

/-! ## single `nextToken` calls -/

section
variable {T : Tables} {o : Opts} {fold : Char → List Char}

theorem nextToken_op {c : Char} {k : Kind} (h : T.operator c = some k) (f : Nat) (st : St)
    (cs : Str) : nextToken T o fold (f + 1) st (c :: cs) = .tok k [c] st cs := by
  rw [nextToken]
  simp only [h]

theorem nextToken_colon (K : KvTables T) (O : OptsOK o) (f : Nat) (st : St) (cs : Str) :
    nextToken T o fold (f + 1) st (':' :: cs) = .tok .colon [':'] { st with lastCr := false } cs := by
  rw [nextToken]
  simp only [K.colon]
  have e1 : (':' : Char) ≠ '\r' := by decide
  have e2 : (':' : Char) ≠ '\n' := by decide
  have e3 : ¬ ((':' : Char) = ' ' ∨ (':' : Char) = '\t') := by decide
  have e4 : (':' : Char) ≠ '/' := by decide
  have e5 : (':' : Char) ≠ '"' := by decide
  have e6 : (':' : Char) ≠ '[' := by decide
  have e7 : (':' : Char) ≠ '(' := by decide
  have e8 : (':' : Char) ≠ Char.ofNat 0xFEFF := by decide
  simp only [e1, e2, e3, e4, e5, e6, e7, e8, if_false, false_and, O.colon, and_self, if_true]

theorem nextToken_bo (K : KvTables T) (O : OptsOK o) (f : Nat) (st : St) (cs : Str) :
    nextToken T o fold (f + 1) st ('[' :: cs) = .tok .brackOpen ['['] { st with lastCr := false } cs := by
  rw [nextToken]
  simp only [K.bo]
  have e1 : ('[' : Char) ≠ '\r' := by decide
  have e2 : ('[' : Char) ≠ '\n' := by decide
  have e3 : ¬ (('[' : Char) = ' ' ∨ ('[' : Char) = '\t') := by decide
  have e4 : ('[' : Char) ≠ '/' := by decide
  have e5 : ('[' : Char) ≠ '"' := by decide
  simp only [e1, e2, e3, e4, e5, if_false, O.brack, Bool.not_false, if_true]

theorem nextToken_bc (K : KvTables T) (O : OptsOK o) (f : Nat) (st : St) (cs : Str) :
    nextToken T o fold (f + 1) st (']' :: cs) = .tok .brackClose [']'] { st with lastCr := false } cs := by
  rw [nextToken]
  simp only [K.bc]
  have e1 : (']' : Char) ≠ '\r' := by decide
  have e2 : (']' : Char) ≠ '\n' := by decide
  have e3 : ¬ ((']' : Char) = ' ' ∨ (']' : Char) = '\t') := by decide
  have e4 : (']' : Char) ≠ '/' := by decide
  have e5 : (']' : Char) ≠ '"' := by decide
  have e6 : (']' : Char) ≠ '[' := by decide
  have e7 : (']' : Char) ≠ '(' := by decide
  have e8 : (']' : Char) ≠ Char.ofNat 0xFEFF := by decide
  have e9 : (']' : Char) ≠ ':' := by decide
  have e10 : (']' : Char) ≠ '+' := by decide
  simp only [e1, e2, e3, e4, e5, e6, e7, e8, e9, e10, if_false, false_and, O.brack, if_true,
    Bool.false_eq_true]

theorem nextToken_paren (K : KvTables T) (O : OptsOK o) (inner rest : Str) (h1 : '(' ∉ inner)
    (h2 : ')' ∉ inner) (f : Nat) (st : St) :
    ∃ l, nextToken T o fold (f + 1) st ('(' :: (inner ++ ')' :: rest))
      = .tok .parenArgs inner { line := l, lastCr := false } rest := by
  obtain ⟨l, hl⟩ := scanParen_inner inner [] rest st.line h1 h2
  refine ⟨l, ?_⟩
  rw [nextToken]
  simp only [K.po]
  have e1 : ('(' : Char) ≠ '\r' := by decide
  have e2 : ('(' : Char) ≠ '\n' := by decide
  have e3 : ¬ (('(' : Char) = ' ' ∨ ('(' : Char) = '\t') := by decide
  have e4 : ('(' : Char) ≠ '/' := by decide
  have e5 : ('(' : Char) ≠ '"' := by decide
  have e6 : ('(' : Char) ≠ '[' := by decide
  simp only [e1, e2, e3, e4, e5, e6, if_false, O.parens, Bool.not_true, if_true, Bool.false_eq_true, hl]
  simp

theorem nextToken_quoted (K : KvTables T) (O : OptsOK o) (E d rest : Str) (h : Reads T E d)
    (f : Nat) (st : St) :
    ∃ l, nextToken T o fold (f + 1) st ('"' :: (E ++ '"' :: rest))
      = .tok .string d { line := l, lastCr := false } rest := by
  obtain ⟨l, hl⟩ := h rest st.line
  refine ⟨l, ?_⟩
  have F := escFacts K.tok.esc
  rw [nextToken]
  simp only [F.quoteNoOp]
  have e1 : ('"' : Char) ≠ '\r' := by decide
  have e2 : ('"' : Char) ≠ '\n' := by decide
  have e3 : ¬ (('"' : Char) = ' ' ∨ ('"' : Char) = '\t') := by decide
  have e4 : ('"' : Char) ≠ '/' := by decide
  simp only [e1, e2, e3, e4, if_false, O.esc, if_true, hl]

theorem nextToken_comment (K : KvTables T) (O : OptsOK o) (text rest : Str) (h : '\n' ∉ text)
    (f : Nat) (st : St) (hst : st.lastCr = false) :
    nextToken T o fold (f + 1 + 1) st ('/' :: '/' :: (text ++ '\n' :: rest))
      = .tok .newline ['\n'] { st with line := st.line + 1 } rest := by
  rw [nextToken]
  simp only [K.slash]
  have e1 : ('/' : Char) ≠ '\r' := by decide
  have e2 : ('/' : Char) ≠ '\n' := by decide
  have e3 : ¬ (('/' : Char) = ' ' ∨ ('/' : Char) = '\t') := by decide
  simp only [e1, e2, e3, if_false, if_true, scanLineComment_text text [] rest h, O.noCom,
    Bool.false_eq_true, st_eta st hst]
  exact nextToken_lf K.tok o fold f st hst rest

theorem bareHead_facts {c : Char} (h : bareHead T c = true) :
    T.operator c = none ∧ T.bareDisallowed.contains c = false ∧ c ∉ headSpecial := by
  unfold bareHead at h
  simp only [Bool.and_eq_true, Option.isNone_iff_eq_none, Bool.not_eq_true'] at h
  refine ⟨h.1.1, h.1.2, ?_⟩
  intro hm
  have := h.2
  rw [List.contains_iff_mem.mpr hm] at this
  cases this

theorem nextToken_bare (O : OptsOK o) (c : Char) (s tail : Str) (hc : bareHead T c = true)
    (hs : ∀ x ∈ s, bareCont T x = true) (ht : bareOk T tail) (f : Nat) (st : St) :
    nextToken T o fold (f + 1) st (c :: (s ++ tail))
      = .tok .string (c :: s) { st with lastCr := false } tail := by
  obtain ⟨hop, hbd, hsp⟩ := bareHead_facts hc
  simp only [headSpecial, List.mem_cons, List.not_mem_nil, or_false, not_or] at hsp
  obtain ⟨e1, e2, e3, e4, e5, e6, e7, e8, e9, e10, e11, e12, e13, e14⟩ := hsp
  rw [nextToken]
  simp only [hop, e1, e2, e3, e4, e5, e6, e7, e8, e9, e10, e11, e12, e13, e14, if_false, false_and,
    or_self, hbd, Bool.not_false, if_true, scanBare_bare O s [c] tail hs ht]
  simp

end

/-! ## primitive fragments -/

section
variable {T : Tables} {o : Opts} {fold : Char → List Char}

theorem st_lastCr_false (st : St) : ({ st with lastCr := false } : St).lastCr = false := rfl

theorem lex_op {c : Char} {k : Kind} (h : T.operator c = some k) (hk : k ≠ .eof) :
    LexesTo T o fold [c] [(k, [c])] anyTail :=
  LexesTo.single hk (by simp) fun st hst tail _ => ⟨st, hst, nextToken_op h _ st tail⟩

theorem lex_eq (K : KvTables T) : LexesTo T o fold ['='] [tkEq] anyTail := lex_op K.eq (by decide)

theorem lex_comma (K : KvTables T) : LexesTo T o fold [','] [tkComma] anyTail :=
  lex_op K.comma (by decide)

theorem lex_colon (K : KvTables T) (O : OptsOK o) : LexesTo T o fold [':'] [tkColon] anyTail :=
  LexesTo.single (by decide) (by simp) fun st _ tail _ =>
    ⟨_, st_lastCr_false st, nextToken_colon K O _ st tail⟩

theorem lex_bo (K : KvTables T) (O : OptsOK o) : LexesTo T o fold ['['] [tkOpen] anyTail :=
  LexesTo.single (by decide) (by simp) fun st _ tail _ =>
    ⟨_, st_lastCr_false st, nextToken_bo K O _ st tail⟩

theorem lex_bc (K : KvTables T) (O : OptsOK o) : LexesTo T o fold [']'] [tkClose] anyTail :=
  LexesTo.single (by decide) (by simp) fun st _ tail _ =>
    ⟨_, st_lastCr_false st, nextToken_bc K O _ st tail⟩

theorem lex_plus (K : KvTables T) (O : OptsOK o) : LexesTo T o fold ['+'] [tkPlus] anyTail :=
  LexesTo.single (by decide) (by simp) fun st _ tail _ =>
    ⟨_, st_lastCr_false st, nextToken_plus K.tok o O.plus fold _ st tail⟩

theorem lex_nl (K : KvTables T) : LexesTo T o fold ['\n'] [tkNl] anyTail :=
  LexesTo.single (by decide) (by simp) fun st hst tail _ =>
    ⟨{ st with line := st.line + 1 }, hst, nextToken_lf K.tok o fold _ st hst tail⟩

theorem lex_paren (K : KvTables T) (O : OptsOK o) (inner : Str) (h1 : '(' ∉ inner) (h2 : ')' ∉ inner) :
    LexesTo T o fold ('(' :: (inner ++ [')'])) [(.parenArgs, inner)] anyTail :=
  LexesTo.single (by decide) (by simp) fun st _ tail _ => by
    obtain ⟨l, hl⟩ := nextToken_paren (fold := fold) K O inner tail h1 h2
      (('(' :: (inner ++ [')'])) ++ tail).length st
    refine ⟨{ line := l, lastCr := false }, rfl, ?_⟩
    simpa using hl

theorem lex_quoted (K : KvTables T) (O : OptsOK o) (E d : Str) (h : Reads T E d) :
    LexesTo T o fold (quote E) [(.string, d)] anyTail :=
  LexesTo.single (by decide) (by simp [quote]) fun st _ tail _ => by
    obtain ⟨l, hl⟩ := nextToken_quoted (fold := fold) K O E d tail h ((quote E) ++ tail).length st
    refine ⟨{ line := l, lastCr := false }, rfl, ?_⟩
    simpa [quote] using hl

theorem lex_bare (O : OptsOK o) (s : Str) (h : BareStr T s = true) :
    LexesTo T o fold s [(.string, s)] (bareOk T) := by
  cases s with
  | nil => simp [BareStr] at h
  | cons c s =>
    simp only [BareStr, Bool.and_eq_true, List.all_eq_true] at h
    exact LexesTo.single (by decide) (by simp) fun st _ tail ht =>
      ⟨_, st_lastCr_false st, nextToken_bare O c s tail h.1 h.2 ht _ st⟩

/-- A `//` comment up to and including its line feed is one NEWLINE token. -/
theorem lex_comment (K : KvTables T) (O : OptsOK o) (text : Str) (h : '\n' ∉ text) :
    LexesTo T o fold ('/' :: '/' :: (text ++ ['\n'])) [tkNl] anyTail :=
  LexesTo.single (by decide) (by simp) fun st hst tail _ => by
    have := nextToken_comment (fold := fold) K O text tail h ((text ++ '\n' :: tail).length + 1) st hst
    refine ⟨{ st with line := st.line + 1 }, hst, ?_⟩
    simpa using this

theorem lex_sp (K : KvTables T) (ok : Str → Prop) : LexesTo T o fold [' '] [] ok :=
  LexesTo.blanks K.tok [' '] (by simp) ok

theorem lex_tab (K : KvTables T) (ok : Str → Prop) : LexesTo T o fold ['\t'] [] ok :=
  LexesTo.blanks K.tok ['\t'] (by simp) ok

end

/-! ## numbers -/

theorem digit_ofNat_mem (m : Nat) (h : m < 10) : Char.ofNat (48 + m) ∈ numberChars := by
  have : m = 0 ∨ m = 1 ∨ m = 2 ∨ m = 3 ∨ m = 4 ∨ m = 5 ∨ m = 6 ∨ m = 7 ∨ m = 8 ∨ m = 9 := by omega
  rcases this with rfl | rfl | rfl | rfl | rfl | rfl | rfl | rfl | rfl | rfl <;> decide

theorem natDigitsAux_mem : ∀ (fuel n : Nat) (acc : Str), (∀ c ∈ acc, c ∈ numberChars) →
    ∀ c ∈ natDigitsAux fuel n acc, c ∈ numberChars := by
  intro fuel
  induction fuel with
  | zero => intro n acc h; simpa [natDigitsAux] using h
  | succ fuel ih =>
    intro n acc h
    rw [natDigitsAux]
    have h' : ∀ c ∈ Char.ofNat (48 + n % 10) :: acc, c ∈ numberChars := by
      intro c hc
      rcases List.mem_cons.mp hc with rfl | hc
      · exact digit_ofNat_mem _ (Nat.mod_lt _ (by decide))
      · exact h c hc
    split
    · exact h'
    · exact ih _ _ h'

theorem natDigitsAux_ne : ∀ (fuel n : Nat) (acc : Str), acc ≠ [] → natDigitsAux fuel n acc ≠ [] := by
  intro fuel
  induction fuel with
  | zero => intro n acc h; simpa [natDigitsAux] using h
  | succ fuel ih =>
    intro n acc _
    rw [natDigitsAux]
    split
    · simp
    · exact ih _ _ (by simp)

theorem natText_mem (n : Nat) : ∀ c ∈ natText n, c ∈ numberChars :=
  natDigitsAux_mem _ _ _ (by simp)

theorem natText_ne (n : Nat) : natText n ≠ [] := by
  unfold natText
  rw [natDigitsAux]
  split
  · simp
  · exact natDigitsAux_ne _ _ _ (by simp)

theorem bareStr_of_num {T : Tables} (K : KvTables T) {v : Str} (hne : v ≠ [])
    (h : ∀ c ∈ v, c ∈ numberChars) : BareStr T v = true := by
  cases v with
  | nil => exact absurd rfl hne
  | cons c t =>
    simp only [BareStr, Bool.and_eq_true, List.all_eq_true]
    exact ⟨(K.num c (h c (by simp))).1, fun x hx => (K.num x (h x (by simp [hx]))).2⟩

theorem natText_bare {T : Tables} (K : KvTables T) (n : Nat) : BareStr T (natText n) = true :=
  bareStr_of_num K (natText_ne n) (natText_mem n)

theorem isDigit_mem {c : Char} (h : isDigit c = true) : c ∈ numberChars := by
  simp only [isDigit, Bool.and_eq_true, decide_eq_true_eq] at h
  obtain ⟨h1, h2⟩ := h
  have h1' : 48 ≤ c.toNat := by
    have := Char.le_def.mp h1
    simpa [UInt32.le_iff_toNat_le] using this
  have h2' : c.toNat ≤ 57 := by
    have := Char.le_def.mp h2
    simpa [UInt32.le_iff_toNat_le] using this
  have hc : c = Char.ofNat c.toNat := (Char.ofNat_toNat c).symm
  rw [hc]
  obtain ⟨m, hm⟩ : ∃ m, c.toNat = 48 + m := ⟨c.toNat - 48, by omega⟩
  rw [hm]
  exact digit_ofNat_mem m (by omega)

theorem isPlainNumber_chars {v : Str} (h : isPlainNumber v = true) :
    v ≠ [] ∧ ∀ c ∈ v, c ∈ numberChars := by
  have hbody : ∀ body : Str, (body.all (fun c => isDigit c || c == '.') && body.any isDigit) = true →
      body ≠ [] ∧ ∀ c ∈ body, c ∈ numberChars := by
    intro body hb
    simp only [Bool.and_eq_true, List.all_eq_true, List.any_eq_true, Bool.or_eq_true, beq_iff_eq] at hb
    refine ⟨?_, ?_⟩
    · obtain ⟨x, hx, _⟩ := hb.2
      intro h0; rw [h0] at hx; cases hx
    · intro c hc
      rcases hb.1 c hc with hd | rfl
      · exact isDigit_mem hd
      · decide
  unfold isPlainNumber at h
  simp only [Bool.and_eq_true] at h
  have h12 := hbody _ (by simp only [Bool.and_eq_true]; exact h.1)
  split at h12
  · refine ⟨by simp, ?_⟩
    intro c hc
    rcases List.mem_cons.mp hc with rfl | hc
    · decide
    · exact h12.2 c hc
  · exact h12

theorem isPlainNumber_bare {T : Tables} (K : KvTables T) {v : Str} (h : isPlainNumber v = true) :
    BareStr T v = true :=
  bareStr_of_num K (isPlainNumber_chars h).1 (isPlainNumber_chars h).2

theorem digitsMinus_bare {T : Tables} (K : KvTables T) {d : Str} (hne : d ≠ [])
    (h : d.all (digitsMinus.contains ·) = true) : BareStr T d = true := by
  refine bareStr_of_num K hne ?_
  intro c hc
  have := List.all_eq_true.mp h c hc
  have hm : c ∈ digitsMinus := List.contains_iff_mem.mp this
  have : ∀ x ∈ digitsMinus, x ∈ numberChars := by decide
  exact this c hm

/-! ## long strings -/

/-- The sections of the long string exist and each is read back as its decoding. -/
def LsOK (c : ExpCfg) (ext : Bool) (s : Str) : Prop :=
  longSections c.long c.T ext s ≠ [] ∧
    ∀ sec ∈ longSections c.long c.T ext s, Reads c.T sec (decodeUnits c.T sec)

section
variable {T : Tables} {o : Opts} {fold : Char → List Char}

theorem lex_join (K : KvTables T) (O : OptsOK o) (indent : Str)
    (hind : ∀ c ∈ indent, c = ' ' ∨ c = '\t') (dec : Str → Str) :
    ∀ secs : List Str, secs ≠ [] → (∀ sec ∈ secs, Reads T sec (dec sec)) →
      LexesTo T o fold (joinWith (plusSep indent) (secs.map quote)) (chainToks (secs.map dec))
        anyTail := by
  intro secs
  induction secs with
  | nil => intro h; exact absurd rfl h
  | cons p ps ih =>
    intro _ hr
    cases ps with
    | nil =>
      exact (lex_quoted K O p (dec p) (hr p (by simp))).cast (by simp [joinWith])
        (by simp [chainToks, plusChain])
    | cons q ps' =>
      have ih' := ih (by simp) (fun sec hs => hr sec (by simp [hs]))
      have h := (lex_quoted (fold := fold) K O p (dec p) (hr p (by simp))).seq'
        ((lex_sp K anyTail).seq' ((lex_plus K O).seq' ((lex_nl K).seq'
          ((LexesTo.blanks K.tok indent hind anyTail).seq' ih'))))
      exact h.cast (by simp [joinWith, plusSep])
        (by simp [chainToks, plusChain, tkPlus, tkNl])

theorem lex_wls (K : KvTables T) (O : OptsOK o) (c : ExpCfg) (hT : c.T = T) (ext : Bool)
    (indent s : Str) (hind : ∀ x ∈ indent, x = ' ' ∨ x = '\t') (h : LsOK c ext s) :
    LexesTo T o fold (wls c ext indent s) (lsToks c ext s) anyTail := by
  subst hT
  exact lex_join K O indent hind (decodeUnits c.T) _ h.1 h.2

/-! ## tags -/

/-- A tag as written: `+X` with a bare `X`, or a bare string (which may start with `!` or `-`). -/
def tagOK (T : Tables) : Str → Bool
  | '+' :: b => BareStr T b
  | t => BareStr T t

theorem lex_tag (K : KvTables T) (O : OptsOK o) (t : Str) (h : tagOK T t = true) :
    LexesTo T o fold t (tagTok t) (bareOk T) := by
  unfold tagOK at h
  split at h
  · exact ((lex_plus K O).seq' (lex_bare O _ h)).cast rfl rfl
  · rename_i hne
    have : tagTok t = [(.string, t)] := by
      unfold tagTok
      split
      · exact absurd rfl (hne _)
      · rfl
    rw [this]
    exact lex_bare O t h

theorem lex_tagsInner (K : KvTables T) (O : OptsOK o) :
    ∀ tags : List Str, tags ≠ [] → (∀ t ∈ tags, tagOK T t = true) →
      LexesTo T o fold (joinWith [',', ' '] tags) (tagsInner tags) (bareOk T) := by
  intro tags
  induction tags with
  | nil => intro h; exact absurd rfl h
  | cons t ts ih =>
    intro _ ht
    cases ts with
    | nil => exact (lex_tag K O t (ht t (by simp))).cast (by simp [joinWith]) (by simp [tagsInner])
    | cons u ts' =>
      have ih' := ih (by simp) (fun x hx => ht x (by simp [hx]))
      have h := (lex_tag (fold := fold) K O t (ht t (by simp))).seq
        ((lex_comma K).seq' ((lex_sp K anyTail).seq' ih')) (fun _ _ => K.endComma)
      exact h.cast (by simp [joinWith]) (by simp [tagsInner])

theorem lex_tagsText (K : KvTables T) (O : OptsOK o) (tags : List Str) (hne : tags ≠ [])
    (ht : ∀ t ∈ tags, tagOK T t = true) :
    LexesTo T o fold (tagsText tags) (tagsToks tags) anyTail :=
  ((lex_bo K O).seq' ((lex_tagsInner K O tags hne ht).seq (lex_bc K O) (fun _ _ => K.endBc))).cast
    (by simp [tagsText]) (by simp [tagsToks])

/-- `name[tags](type)` where the tags are written when `cond`. -/
theorem lex_nameTagsType (K : KvTables T) (O : OptsOK o) (name typ : Str) (tags : List Str)
    (cond : Bool) (hn : BareStr T name = true) (h1 : '(' ∉ typ) (h2 : ')' ∉ typ)
    (ht : cond = true → tags ≠ [] ∧ ∀ t ∈ tags, tagOK T t = true) :
    LexesTo T o fold (name ++ ((if cond then tagsText tags else []) ++ '(' :: (typ ++ [')'])))
      ((.string, name) :: ((if cond then tagsToks tags else []) ++ [(.parenArgs, typ)])) anyTail := by
  cases cond with
  | false =>
    exact ((lex_bare O name hn).seq (lex_paren K O typ h1 h2) (fun _ _ => K.endPo)).cast (by simp)
      (by simp)
  | true =>
    obtain ⟨hne, hts⟩ := ht rfl
    exact ((lex_bare O name hn).seq ((lex_tagsText K O tags hne hts).seq' (lex_paren K O typ h1 h2))
      (fun _ _ => by simp only [tagsText]; exact K.endBo)).cast (by simp) (by simp)

end

/-! ## hypotheses on the records -/

/-- Tags are written only in the extended syntax, and then each has the shape `tagOK`. -/
def TagsOK (T : Tables) (c : ExpCfg) (tags : List Str) : Prop :=
  (!tags.isEmpty && c.ext) = true → ∀ t ∈ tags, tagOK T t = true

/-- A default that is written quoted is read back as `quotedVal`. -/
def DefaultOK (c : ExpCfg) (d : Str) : Prop :=
  d.all (digitsMinus.contains ·) = false → Reads c.T (fgdEscape c.T c.ext d) (quotedVal c d)

/-- A choice value that is written quoted is read back as `quotedVal`. -/
def ChoiceValOK (c : ExpCfg) (v : Str) : Prop :=
  isPlainNumber v = false → Reads c.T (fgdEscape c.T c.ext v) (quotedVal c v)

structure FlagOK (T : Tables) (c : ExpCfg) (f : Flag) : Prop where
  ls : LsOK c c.ext (flagShown c f)
  tags : TagsOK T c f.tags

structure ChoiceOK (T : Tables) (c : ExpCfg) (ch : Choice) : Prop where
  val : ChoiceValOK c ch.value
  ls : LsOK c false (replaceNl ch.name)
  tags : TagsOK T c ch.tags

structure KvLexOK (T : Tables) (o : Opts) (c : ExpCfg) (tags : List Str) (k : KVRec) : Prop where
  hT : c.T = T
  tables : kvTablesOK T = true
  opts : optsOK o = true
  name : BareStr T k.name = true
  tags : TagsOK T c tags
  typ1 : '(' ∉ typeText c.tt k.typ
  typ2 : ')' ∉ typeText c.tt k.typ
  disp : k.typ ≠ c.tt.spawnflags → LsOK c c.ext k.disp
  dflt : DefaultOK c k.default
  desc : k.desc ≠ [] → LsOK c c.ext k.desc
  flags : k.typ = c.tt.spawnflags → ∀ l, k.vals = .flags l → ∀ f ∈ l, FlagOK T c f
  choices : k.typ ≠ c.tt.spawnflags → k.typ = c.tt.choices →
    ∀ l, k.vals = .choices l → ∀ ch ∈ l, ChoiceOK T c ch

structure IoLexOK (T : Tables) (o : Opts) (c : ExpCfg) (kw : Str) (tags : List Str) (io : IORec) :
    Prop where
  hT : c.T = T
  tables : kvTablesOK T = true
  opts : optsOK o = true
  kw : kw = sInput ∨ kw = sOutput
  name : BareStr T io.name = true
  tags : TagsOK T c tags
  typ1 : '(' ∉ c.tt.ioText.getD io.typ []
  typ2 : ')' ∉ c.tt.ioText.getD io.typ []
  desc : io.desc ≠ [] → LsOK c c.ext io.desc

def ItemLexOK (T : Tables) (o : Opts) (c : ExpCfg) : Item → Prop
  | .kv tags k => KvLexOK T o c tags k
  | .inp tags io => IoLexOK T o c sInput tags io
  | .out tags io => IoLexOK T o c sOutput tags io

/-! ## lines of flag / choice lists -/

section
variable {T : Tables} {o : Opts} {fold : Char → List Char}

local macro "lnorm" : tactic =>
  `(tactic| simp only [List.append_assoc, List.cons_append, List.nil_append])

theorem isEmpty_false_ne {α : Type} {l : List α} (h : (!l.isEmpty) = true) : l ≠ [] := by
  intro h0; subst h0; simp at h

/-- `␣[tags]` (when written) and the line feed. -/
theorem lex_lineEnd (K : KvTables T) (O : OptsOK o) (c : ExpCfg) (tags : List Str)
    (h : TagsOK T c tags) :
    LexesTo T o fold ((if !tags.isEmpty && c.ext then ' ' :: tagsText tags else []) ++ ['\n'])
      (optTags c tags ++ [tkNl]) anyTail := by
  unfold optTags
  by_cases hc : (!tags.isEmpty && c.ext) = true
  · rw [if_pos hc, if_pos hc]
    have hne : tags ≠ [] := isEmpty_false_ne (by simp only [Bool.and_eq_true] at hc; exact hc.1)
    exact ((lex_sp K anyTail).seq' ((lex_tagsText K O tags hne (h hc)).seq' (lex_nl K))).cast
      (by lnorm) (by lnorm)
  · rw [if_neg hc, if_neg hc]
    exact lex_nl K

theorem lineEnd_bareOk (K : KvTables T) (b : Bool) (x : Str) (tail : Str) :
    bareOk T (((if b then ' ' :: x else []) ++ ['\n']) ++ tail) := by
  cases b
  · exact K.endNl
  · exact K.endSp

theorem lex_flagDflt (K : KvTables T) (O : OptsOK o) (b : Bool) :
    LexesTo T o fold (if b then [' ', ':', ' ', '1'] else [' ', ':', ' ', '0'])
      [tkColon, (.string, if b then ['1'] else ['0'])] (bareOk T) := by
  cases b
  · exact ((lex_sp K anyTail).seq' ((lex_colon K O).seq' ((lex_sp K anyTail).seq'
      (lex_bare O ['0'] (bareStr_of_num K (by simp) (by decide)))))).cast rfl rfl
  · exact ((lex_sp K anyTail).seq' ((lex_colon K O).seq' ((lex_sp K anyTail).seq'
      (lex_bare O ['1'] (bareStr_of_num K (by simp) (by decide)))))).cast rfl rfl

theorem lex_flagLine (K : KvTables T) (O : OptsOK o) (c : ExpCfg) (hT : c.T = T) (f : Flag)
    (h : FlagOK T c f) : LexesTo T o fold (flagLine c f) (flagToks c f) anyTail := by
  have h := (LexesTo.blanks (fold := fold) K.tok ['\t', '\t'] (by simp) anyTail).seq'
    ((lex_bare O _ (natText_bare K f.mask)).seq
      ((lex_colon K O).seq' ((lex_sp K anyTail).seq'
        ((lex_wls K O c hT c.ext ['\t', '\t'] (flagShown c f) (by simp) h.ls).seq'
          ((lex_flagDflt K O f.dflt).seq (lex_lineEnd K O c f.tags h.tags)
            (fun tail _ => lineEnd_bareOk K _ _ tail)))))
      (fun _ _ => bareCont_colon T))
  exact h.cast (by simp only [flagLine, flagShown]; lnorm) (by simp only [flagToks]; lnorm)

theorem lex_choiceValue (K : KvTables T) (O : OptsOK o) (c : ExpCfg) (hT : c.T = T) (v : Str)
    (h : ChoiceValOK c v) :
    LexesTo T o fold (choiceValueText c v) [choiceValueTok c v] (bareOk T) := by
  unfold choiceValueText choiceValueTok
  by_cases hp : isPlainNumber v = true
  · rw [if_pos hp, if_pos hp]
    exact lex_bare O v (isPlainNumber_bare K hp)
  · rw [if_neg hp, if_neg hp]
    subst hT
    exact (lex_quoted K O _ _ (h (by simpa using hp))).mono (fun _ _ => trivial)

theorem lex_choiceLine (K : KvTables T) (O : OptsOK o) (c : ExpCfg) (hT : c.T = T) (ch : Choice)
    (h : ChoiceOK T c ch) : LexesTo T o fold (choiceLine c ch) (choiceToks c ch) anyTail := by
  have h := (LexesTo.blanks (fold := fold) K.tok ['\t', '\t'] (by simp) anyTail).seq'
    ((lex_choiceValue K O c hT ch.value h.val).seq
      ((lex_colon K O).seq' ((lex_sp K anyTail).seq'
        ((lex_wls K O c hT false ['\t', '\t'] (replaceNl ch.name) (by simp) h.ls).seq'
          (lex_lineEnd K O c ch.tags h.tags))))
      (fun _ _ => bareCont_colon T))
  exact h.cast (by simp only [choiceLine]; lnorm) (by simp only [choiceToks]; lnorm)

theorem lex_list (K : KvTables T) (O : OptsOK o) (lines : Str) (ltoks : List Tk)
    (h : LexesTo T o fold lines ltoks anyTail) :
    LexesTo T o fold (listOpen ++ lines ++ listClose) (listToks ltoks) anyTail := by
  have h := (lex_sp (fold := fold) K anyTail).seq' ((lex_eq K).seq' ((lex_nl K).seq'
    ((LexesTo.blanks K.tok ['\t', '\t'] (by simp) anyTail).seq' ((lex_bo K O).seq' ((lex_nl K).seq'
      (h.seq' ((LexesTo.blanks K.tok ['\t', '\t'] (by simp) anyTail).seq' (lex_bc K O))))))))
  exact h.cast (by simp only [listOpen, listClose]; lnorm) (by simp only [listToks]; lnorm)

end

/-! ## keyvalue lines -/

section
variable {T : Tables} {o : Opts} {fold : Char → List Char}

local macro "lnorm" : tactic =>
  `(tactic| simp only [List.append_assoc, List.cons_append, List.nil_append])

/-- `readonly␣` / `report␣` when present. -/
theorem lex_optKw (K : KvTables T) (O : OptsOK o) (b : Bool) (kw : Str) (h : BareStr T kw = true) :
    LexesTo T o fold (if b then kw ++ [' '] else []) (if b then [(.string, kw)] else []) anyTail := by
  cases b
  · exact LexesTo.nil _
  · exact ((lex_bare O kw h).seq (lex_sp K anyTail) (fun _ _ => K.endSp)).cast rfl rfl

theorem lex_default (K : KvTables T) (O : OptsOK o) (c : ExpCfg) (hT : c.T = T) (d : Str)
    (hne : d ≠ []) (h : DefaultOK c d) :
    LexesTo T o fold (defaultText c d) [defaultTok c d] (bareOk T) := by
  unfold defaultText defaultTok
  by_cases hp : d.all (digitsMinus.contains ·) = true
  · rw [if_pos hp, if_pos hp]
    exact lex_bare O d (digitsMinus_bare K hne hp)
  · rw [if_neg hp, if_neg hp]
    subst hT
    exact (lex_quoted K O _ _ (h (by simpa using hp))).mono (fun _ _ => trivial)

/-- The default written by `exportKV`. -/
def kvDefault (c : ExpCfg) (k : KVRec) : Str :=
  if k.default.isEmpty && k.typ = c.tt.bool then ['0'] else k.default

theorem kvDefault_ok (c : ExpCfg) (k : KVRec) (h : DefaultOK c k.default) :
    DefaultOK c (kvDefault c k) := by
  unfold kvDefault
  split
  · intro h0; exact absurd h0 (by decide)
  · exact h

/-- ` : default : desc` with the empty members left out as `KVDef.export` does. -/
def midText (c : ExpCfg) (d desc : Str) : Str :=
  (if !d.isEmpty then
      [' ', ':', ' '] ++ defaultText c d ++ (if !desc.isEmpty then [' ', ':', ' '] else [])
    else (if !desc.isEmpty then [' ', ':', ' ', ':', ' '] else []))
  ++ (if !desc.isEmpty then wls c c.ext ['\t'] desc else [])

def midToks (c : ExpCfg) (d desc : Str) : List Tk :=
  (if !d.isEmpty then
      tkColon :: defaultTok c d :: (if !desc.isEmpty then [tkColon] else [])
    else (if !desc.isEmpty then [tkColon, tkColon] else []))
  ++ (if !desc.isEmpty then lsToks c c.ext desc else [])

theorem lex_mid (K : KvTables T) (O : OptsOK o) (c : ExpCfg) (hT : c.T = T) (d desc : Str)
    (hd : DefaultOK c d) (hdesc : desc ≠ [] → LsOK c c.ext desc) :
    LexesTo T o fold (midText c d desc) (midToks c d desc) (bareOk T) := by
  unfold midText midToks
  have hw := fun h => lex_wls (fold := fold) K O c hT c.ext ['\t'] desc (by simp) (hdesc h)
  cases d with
  | nil =>
    cases desc with
    | nil => exact LexesTo.nil _
    | cons y ys =>
      have h := (lex_sp (fold := fold) K anyTail).seq' ((lex_colon K O).seq' ((lex_sp K anyTail).seq'
        ((lex_colon K O).seq' ((lex_sp K anyTail).seq' (hw (by simp))))))
      exact (h.cast (by simp) (by simp)).mono (fun _ _ => trivial)
  | cons x xs =>
    have hdf := lex_default (fold := fold) K O c hT (x :: xs) (by simp) hd
    cases desc with
    | nil =>
      have h := (lex_sp (fold := fold) K anyTail).seq' ((lex_colon K O).seq' ((lex_sp K anyTail).seq' hdf))
      exact h.cast (by simp) (by simp)
    | cons y ys =>
      have h := (lex_sp (fold := fold) K anyTail).seq' ((lex_colon K O).seq' ((lex_sp K anyTail).seq'
        (hdf.seq ((lex_sp K anyTail).seq' ((lex_colon K O).seq' ((lex_sp K anyTail).seq' (hw (by simp)))))
          (fun _ _ => K.endSp))))
      exact (h.cast (by simp) (by simp)).mono (fun _ _ => trivial)

/-- The `= [ … ]` list of a spawnflags / choices keyvalue. -/
def lstText (c : ExpCfg) (k : KVRec) : Str :=
  if k.typ = c.tt.spawnflags then
    listOpen ++ (match k.vals with | .flags l => l.flatMap (flagLine c) | _ => []) ++ listClose
  else if k.typ = c.tt.choices then
    listOpen ++ (match k.vals with | .choices l => l.flatMap (choiceLine c) | _ => []) ++ listClose
  else []

def lstToks (c : ExpCfg) (k : KVRec) : List Tk :=
  if k.typ = c.tt.spawnflags then
    listToks (match k.vals with | .flags l => l.flatMap (flagToks c) | _ => [])
  else if k.typ = c.tt.choices then
    listToks (match k.vals with | .choices l => l.flatMap (choiceToks c) | _ => [])
  else []

theorem lex_lst (K : KvTables T) (O : OptsOK o) (c : ExpCfg) (hT : c.T = T) (k : KVRec)
    (hf : k.typ = c.tt.spawnflags → ∀ l, k.vals = .flags l → ∀ f ∈ l, FlagOK T c f)
    (hc : k.typ ≠ c.tt.spawnflags → k.typ = c.tt.choices →
      ∀ l, k.vals = .choices l → ∀ ch ∈ l, ChoiceOK T c ch) :
    LexesTo T o fold (lstText c k) (lstToks c k) anyTail := by
  unfold lstText lstToks
  by_cases h1 : k.typ = c.tt.spawnflags
  · rw [if_pos h1, if_pos h1]
    apply lex_list K O
    cases hv : k.vals with
    | flags l => exact LexesTo.flatMap _ _ l (fun f hf' => lex_flagLine K O c hT f (hf h1 l hv f hf'))
    | none => exact LexesTo.nil _
    | choices l => exact LexesTo.nil _
  · rw [if_neg h1, if_neg h1]
    by_cases h2 : k.typ = c.tt.choices
    · rw [if_pos h2, if_pos h2]
      apply lex_list K O
      cases hv : k.vals with
      | choices l =>
        exact LexesTo.flatMap _ _ l (fun ch hc' => lex_choiceLine K O c hT ch (hc h1 h2 l hv ch hc'))
      | none => exact LexesTo.nil _
      | flags l => exact LexesTo.nil _
    · rw [if_neg h2, if_neg h2]
      exact LexesTo.nil _

theorem lst_bareOk (K : KvTables T) (c : ExpCfg) (k : KVRec) (tail : Str) :
    bareOk T ((lstText c k ++ ['\n']) ++ tail) := by
  unfold lstText
  split
  · exact K.endSp
  · split
    · exact K.endSp
    · exact K.endNl

theorem tagsCond {c : ExpCfg} {tags : List Str} (h : TagsOK T c tags) :
    (!tags.isEmpty && c.ext) = true → tags ≠ [] ∧ ∀ t ∈ tags, tagOK T t = true := by
  intro hc
  refine ⟨isEmpty_false_ne ?_, h hc⟩
  simp only [Bool.and_eq_true] at hc
  exact hc.1

theorem exportKV_eq (c : ExpCfg) (tags : List Str) (k : KVRec) :
    exportKV c tags k =
      ['\t'] ++ ((k.name ++ ((if !tags.isEmpty && c.ext then tagsText tags else [])
          ++ '(' :: (typeText c.tt k.typ ++ [')'])))
        ++ ([' '] ++ ((if k.readonly then sReadonly ++ [' '] else [])
        ++ ((if k.reportable then sReport ++ [' '] else [])
        ++ ((if k.typ ≠ c.tt.spawnflags then [':'] ++ ([' '] ++ wls c c.ext ['\t'] k.disp) else [])
        ++ (midText c (kvDefault c k) k.desc ++ (lstText c k ++ ['\n']))))))) := by
  simp only [exportKV, midText, lstText, kvDefault]
  lnorm
  rfl

theorem kvToks_eq (c : ExpCfg) (tags : List Str) (k : KVRec) :
    kvToks c tags k =
      [] ++ (((.string, k.name) :: ((if !tags.isEmpty && c.ext then tagsToks tags else [])
          ++ [(.parenArgs, typeText c.tt k.typ)]))
        ++ ([] ++ ((if k.readonly then [(.string, sReadonly)] else [])
        ++ ((if k.reportable then [(.string, sReport)] else [])
        ++ ((if k.typ ≠ c.tt.spawnflags then [tkColon] ++ ([] ++ lsToks c c.ext k.disp) else [])
        ++ (midToks c (kvDefault c k) k.desc ++ (lstToks c k ++ [tkNl]))))))) := by
  simp only [kvToks, midToks, lstToks, kvDefault, optTags]
  lnorm
  rfl

theorem lex_kv (h : KvLexOK T o c tags k) :
    LexesTo T o fold (exportKV c tags k) (kvToks c tags k) anyTail := by
  have K := kvTables h.tables
  have O := optsFacts h.opts
  have hdisp : LexesTo T o fold
      (if k.typ ≠ c.tt.spawnflags then [':'] ++ ([' '] ++ wls c c.ext ['\t'] k.disp) else [])
      (if k.typ ≠ c.tt.spawnflags then [tkColon] ++ ([] ++ lsToks c c.ext k.disp) else []) anyTail := by
    by_cases h1 : k.typ ≠ c.tt.spawnflags
    · rw [if_pos h1, if_pos h1]
      exact (lex_colon K O).seq' ((lex_sp K anyTail).seq'
        (lex_wls K O c h.hT c.ext ['\t'] k.disp (by simp) (h.disp h1)))
    · rw [if_neg h1, if_neg h1]
      exact LexesTo.nil _
  have hC : LexesTo T o fold (lstText c k ++ ['\n']) (lstToks c k ++ [tkNl]) anyTail :=
    (lex_lst K O c h.hT k h.flags h.choices).seq' (lex_nl K)
  have hB := (lex_mid (fold := fold) K O c h.hT (kvDefault c k) k.desc (kvDefault_ok c k h.dflt)
    h.desc).seq hC (fun tail _ => lst_bareOk K c k tail)
  have hA := (lex_tab (fold := fold) K anyTail).seq'
    ((lex_nameTagsType K O k.name (typeText c.tt k.typ) tags (!tags.isEmpty && c.ext) h.name h.typ1
        h.typ2 (tagsCond h.tags)).seq'
      ((lex_sp K anyTail).seq' ((lex_optKw K O k.readonly sReadonly K.ro).seq'
        ((lex_optKw K O k.reportable sReport K.rep).seq' (hdisp.seq' hB)))))
  exact hA.cast (exportKV_eq c tags k) (kvToks_eq c tags k)

end

/-! ## input / output lines, the entity body -/

section
variable {T : Tables} {o : Opts} {fold : Char → List Char}

local macro "lnorm" : tactic =>
  `(tactic| simp only [List.append_assoc, List.cons_append, List.nil_append])

theorem lex_io (h : IoLexOK T o c kw tags io) :
    LexesTo T o fold (exportIO c kw tags io) (ioToks c kw tags io) anyTail := by
  have K := kvTables h.tables
  have O := optsFacts h.opts
  have hkw : BareStr T kw = true := by
    rcases h.kw with rfl | rfl
    · exact K.inp
    · exact K.out
  have hdesc : LexesTo T o fold
      (if !io.desc.isEmpty then [' '] ++ ([':'] ++ ([' '] ++ wls c c.ext ['\t'] io.desc)) else [])
      (if !io.desc.isEmpty then [] ++ ([tkColon] ++ ([] ++ lsToks c c.ext io.desc)) else []) anyTail := by
    by_cases h1 : (!io.desc.isEmpty) = true
    · rw [if_pos h1, if_pos h1]
      exact (lex_sp K anyTail).seq' ((lex_colon K O).seq' ((lex_sp K anyTail).seq'
        (lex_wls K O c h.hT c.ext ['\t'] io.desc (by simp) (h.desc (isEmpty_false_ne h1)))))
    · rw [if_neg h1, if_neg h1]
      exact LexesTo.nil _
  have hcond : (c.ext && !tags.isEmpty) = true → tags ≠ [] ∧ ∀ t ∈ tags, tagOK T t = true := by
    intro hc
    exact tagsCond h.tags (by rw [Bool.and_comm]; exact hc)
  have hA := (lex_tab (fold := fold) K anyTail).seq'
    ((lex_bare O kw hkw).seq ((lex_sp K anyTail).seq'
      ((lex_nameTagsType K O io.name (c.tt.ioText.getD io.typ []) tags (c.ext && !tags.isEmpty) h.name
        h.typ1 h.typ2 hcond).seq' (hdesc.seq' (lex_nl K)))) (fun _ _ => K.endSp))
  refine hA.cast ?_ ?_
  · simp only [exportIO]
    lnorm
  · simp only [ioToks]
    lnorm

theorem lex_item {it : Item} (h : ItemLexOK T o c it) :
    LexesTo T o fold (itemText c it) (itemToks c it) anyTail := by
  cases it with
  | kv tags k => exact lex_kv h
  | inp tags io => exact lex_io h
  | out tags io => exact lex_io h

/-- `⏎⇥// text⏎`: two NEWLINE tokens. -/
theorem lex_header (K : KvTables T) (O : OptsOK o) (text : Str) (h : '\n' ∉ text) :
    LexesTo T o fold ('\n' :: '\t' :: '/' :: '/' :: (text ++ ['\n'])) [tkNl, tkNl] anyTail :=
  (lex_nl K).seq' ((lex_tab K anyTail).seq' (lex_comment K O text h))

theorem lex_inputsHeader (K : KvTables T) (O : OptsOK o) :
    LexesTo T o fold inputsHeader [tkNl, tkNl] anyTail :=
  (lex_header K O [' ', 'I', 'n', 'p', 'u', 't', 's'] (by decide)).cast (by decide) rfl

theorem lex_outputsHeader (K : KvTables T) (O : OptsOK o) :
    LexesTo T o fold outputsHeader [tkNl, tkNl] anyTail :=
  (lex_header K O [' ', 'O', 'u', 't', 'p', 'u', 't', 's'] (by decide)).cast (by decide) rfl

theorem lex_section {c : ExpCfg} (hdr : Str) (hh : LexesTo T o fold hdr [tkNl, tkNl] anyTail)
    (l : List Item) (hl : ∀ it ∈ l, ItemLexOK T o c it) :
    LexesTo T o fold (if l.isEmpty then [] else hdr ++ l.flatMap (itemText c))
      (if l.isEmpty then [] else tkNl :: tkNl :: l.flatMap (itemToks c)) anyTail := by
  split
  · exact LexesTo.nil _
  · exact hh.seq' (LexesTo.flatMap _ _ l (fun it hit => lex_item (hl it hit)))

/-- The table / option facts are explicit here: an empty body has no item to take them from. -/
theorem lex_body {c : ExpCfg} {items : List Item} (hT : kvTablesOK T = true) (ho : optsOK o = true)
    (h : ∀ it ∈ items, ItemLexOK T o c it) :
    LexesTo T o fold (exportBody c items) (bodyToks c items) anyTail := by
  have K := kvTables hT
  have O := optsFacts ho
  have hsub : ∀ (p : Item → Bool), ∀ it ∈ items.filter p, ItemLexOK T o c it :=
    fun p it hit => h it (List.mem_filter.mp hit).1
  have hA := (LexesTo.flatMap (fold := fold) (itemText c) (itemToks c) _
      (fun it hit => lex_item (hsub Item.isKV it hit))).seq'
    ((lex_section inputsHeader (lex_inputsHeader K O) _ (hsub Item.isInp)).seq'
      ((lex_section outputsHeader (lex_outputsHeader K O) _ (hsub Item.isOut)).seq'
        ((lex_tab K anyTail).seq' ((lex_bc K O).seq' (lex_nl K)))))
  refine hA.cast ?_ ?_
  · simp only [exportBody]
    lnorm
  · simp only [bodyToks]
    lnorm

/-! ## whole runs -/

theorem run_kv (h : KvLexOK T o c tags k) :
    tksOf (run T o fold (exportKV c tags k)) = kvToks c tags k ++ [tkEof] ∧
      (run T o fold (exportKV c tags k)).err = none :=
  run_of_lexes (lex_kv h) trivial

theorem run_io (h : IoLexOK T o c kw tags io) :
    tksOf (run T o fold (exportIO c kw tags io)) = ioToks c kw tags io ++ [tkEof] ∧
      (run T o fold (exportIO c kw tags io)).err = none :=
  run_of_lexes (lex_io h) trivial

theorem run_body {c : ExpCfg} {items : List Item} (hT : kvTablesOK T = true) (ho : optsOK o = true)
    (h : ∀ it ∈ items, ItemLexOK T o c it) :
    tksOf (run T o fold (exportBody c items)) = bodyToks c items ++ [tkEof] ∧
      (run T o fold (exportBody c items)).err = none :=
  run_of_lexes (lex_body hT ho h) trivial

end

end C16.KV

namespace C16.KV
open Tok C16

/-! ## non-vacuity -/

example : kvTablesOK Gen.Tok.tables = true := by decide
example : optsOK fgdOpts = true := by decide

private def exTT : TypeTab where
  values := [['i','n','t','e','g','e','r'], ['f','l','a','g','s'], ['c','h','o','i','c','e','s'],
    ['b','o','o','l','e','a','n']]
  lookup := []
  ioText := [['v','o','i','d']]
  spawnflags := 1
  choices := 2
  bool := 3
  ehandle := 0

private def exCfg : ExpCfg where
  long := { limit := 10, small := 3, backoff := true, emptyQuotes := true }
  T := Gen.Tok.tables
  tt := exTT
  ext := true
  label := false

private def exKV : KVRec where
  name := ['h','p']
  typ := 0
  disp := ['H','P']
  default := ['-','5']
  desc := []
  vals := .none
  readonly := true
  reportable := false

private def exKV2 : KVRec where
  name := ['m']
  typ := 2
  disp := ['M']
  default := ['a']
  desc := ['a',' ','l','o','n','g','e','r',' ','t','e','x','t','\n','y']
  vals := .choices [{ value := ['0'], name := ['o','f','f'], tags := [['+','A'], ['!','B']] },
    { value := ['a'], name := ['o','n'], tags := [] }]
  readonly := false
  reportable := true

example : tksOf (run Gen.Tok.tables fgdOpts (fun x => [x]) (exportKV exCfg [['V','1']] exKV))
    = [(.string, ['h','p']), tkOpen, (.string, ['V','1']), tkClose, (.parenArgs, ['i','n','t','e','g','e','r']),
       (.string, sReadonly), tkColon, (.string, ['H','P']), tkColon, (.string, ['-','5']), tkNl, tkEof]
    ∧ (run Gen.Tok.tables fgdOpts (fun x => [x]) (exportKV exCfg [['V','1']] exKV)).err = none := by
  decide +kernel

/-- Choices with tags (`+A`, `!B`), a quoted default, a long description cut into several sections. -/
example : tksOf (run Gen.Tok.tables fgdOpts (fun x => [x]) (exportKV exCfg [] exKV2))
    = kvToks exCfg [] exKV2 ++ [tkEof] := by
  decide +kernel

/-- A body with a keyvalue, an input and an output (comment lines in between). -/
example : tksOf (run Gen.Tok.tables fgdOpts (fun x => [x])
      (exportBody exCfg [.kv [] exKV2, .inp [['X']] ⟨['K','i','l','l'], 0, ['d','i','e']⟩,
        .out [] ⟨['O','n','X'], 0, []⟩]))
    = bodyToks exCfg [.kv [] exKV2, .inp [['X']] ⟨['K','i','l','l'], 0, ['d','i','e']⟩,
        .out [] ⟨['O','n','X'], 0, []⟩] ++ [tkEof] := by
  decide +kernel

private theorem reads_HP : Reads Gen.Tok.tables ['H','P'] ['H','P'] := by
  intro rest line
  exact ⟨line, by simp [handleString_cons]⟩

/-- The hypotheses of `lex_kv` are satisfiable. -/
example : KvLexOK Gen.Tok.tables fgdOpts exCfg [['V','1']] exKV where
  hT := rfl
  tables := by decide
  opts := by decide
  name := by decide
  tags := by intro _; decide
  typ1 := by decide
  typ2 := by decide
  disp := by
    intro _
    have hs : longSections exCfg.long exCfg.T exCfg.ext exKV.disp = [['H','P']] := by decide +kernel
    refine ⟨by rw [hs]; simp, ?_⟩
    rw [hs]
    intro sec hsec
    simp only [List.mem_singleton] at hsec
    subst hsec
    have : decodeUnits exCfg.T ['H','P'] = ['H','P'] := by decide +kernel
    rw [this]
    exact reads_HP
  dflt := by intro h; exact absurd h (by decide)
  desc := by intro h; exact absurd rfl h
  flags := by intro h; exact absurd h (by decide)
  choices := by intro _ h; exact absurd h (by decide)

end C16.KV
