import Srctools.Proofs.TokSeq
/-!
# The same line followed by arbitrary further text

`runAux_quotedSeqT`: after the padded quoted strings have been read, tokenizing continues on whatever
follows (`tail`) in the state with the advanced line counter and exactly the STRING observations
accumulated — the strings of a line never disturb what comes after them.  Helper lemmas only.
-/
namespace Tok

def quotedSeqT (T : Tables) (ml : Bool) (tail : List Char) : List (List Char × List Char) → List Char
  | [] => tail
  | (ws, s) :: rest => ws ++ '"' :: (escapeText T ml s ++ '"' :: quotedSeqT T ml tail rest)

/-- STRING observations only (no EOF), and the line counter after them. -/
def strObs (T : Tables) (ml : Bool) : Nat → List (List Char × List Char) → List Obs
  | _, [] => []
  | line, (_, s) :: rest =>
    ⟨Kind.string.code, s, line + (escapeText T ml s).count '\n'⟩
      :: strObs T ml (line + (escapeText T ml s).count '\n') rest

def lineAfter (T : Tables) (ml : Bool) : Nat → List (List Char × List Char) → Nat
  | line, [] => line
  | line, (_, s) :: rest => lineAfter T ml (line + (escapeText T ml s).count '\n') rest

theorem runAux_quotedSeqT (T : Tables) (h : escOK T = true) (hw : wsOK T = true) (o : Opts)
    (ho : o.allowEscapes = true) (fold : Char → List Char) (ml : Bool) (tail : List Char) :
    ∀ (items : List (List Char × List Char)), (∀ p ∈ items, isBlank p.1 = true) →
    ∀ (n line : Nat) (acc : List Obs),
    runAux T o fold (n + items.length) { line := line, lastCr := false } (quotedSeqT T ml tail items) acc
      = runAux T o fold n { line := lineAfter T ml line items, lastCr := false } tail
          ((strObs T ml line items).reverse ++ acc) := by
  intro items
  induction items with
  | nil => intro _ n line acc; simp [quotedSeqT, strObs, lineAfter]
  | cons p ps ih =>
    intro hb n line acc
    obtain ⟨ws, s⟩ := p
    have hws : isBlank ws = true := hb (ws, s) (by simp)
    rw [List.length_cons, ← Nat.add_assoc, quotedSeqT, runAux,
      nextToken_padded T h hw o ho fold ml s _ ws hws _ _ (by simp; omega)]
    simp only [reduceCtorEq, if_false]
    rw [ih (fun q hq => hb q (by simp [hq])) n _ _]
    simp [strObs, lineAfter]

end Tok
